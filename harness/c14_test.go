package vh

// C14 driver: decodes target documents with the real HTTP and JSON targeters
// (lazily and through ReadAllTargets), re-inspects earlier targets after every
// later call and the defaults afterwards; spec/targets/TargetsTrace.tla decides.

import (
	"bytes"
	"encoding/json"
	"fmt"
	"hash/fnv"
	"io"
	"math/rand"
	"net/http"
	"os"
	"path/filepath"
	"sort"
	"strings"
	"testing"

	vegeta "github.com/tsenart/vegeta/v12/lib"
)

type tline struct {
	K    string    `json:"k"`
	A    string    `json:"a"`
	B    string    `json:"b"`
	Hdr  []hdrPair `json:"hdr"`
	Body string    `json:"body"`
	text string
}

type hdrPair struct {
	Key    string   `json:"key"`
	Values []string `json:"values"`
}

// MarshalJSON keeps hdr a list (never null) so that the trace has one shape for every line.
func (l tline) MarshalJSON() ([]byte, error) {
	h := l.Hdr
	if h == nil {
		h = []hdrPair{}
	}
	return json.Marshal(struct {
		K    string    `json:"k"`
		A    string    `json:"a"`
		B    string    `json:"b"`
		Hdr  []hdrPair `json:"hdr"`
		Body string    `json:"body"`
	}{l.K, l.A, l.B, h, l.Body})
}

func hdrList(h http.Header) []hdrPair {
	out := []hdrPair{}
	for k, vs := range h {
		out = append(out, hdrPair{k, append([]string{}, vs...)})
	}
	sort.Slice(out, func(i, j int) bool { return out[i].Key < out[j].Key })
	return out
}

type c14Drv struct {
	tr      *Tracer
	r       *rand.Rand
	dir     string
	bodyDir string
	cases   int
	samples []any
	jcases  int             // JSON documents so far
	many    bool            // the next default header set has a key with many values
	other   vegeta.Targeter // a second http targeter that lives next to the one under test and is read in turns with it
	otherK  int             // draws from it so far
}

// bystander draws once from the other targeter (two targets, then the end twice, then a fresh one) and logs a Mixed event -
// which the trace specification has no action for - when it is handed anything but its own next target.
func (d *c14Drv) bystander() {
	if d.other == nil {
		d.other, d.otherK = vegeta.NewHTTPTargeter(strings.NewReader("GET http://bystander.example/1\nX-B: one\n\nPOST http://bystander.example/2\nX-B: two\n"), nil, nil), 0
	}
	var t vegeta.Target
	err := d.other(&t)
	d.otherK++
	got := fmt.Sprintf("%v|%s|%s|%v", err, t.Method, t.URL, t.Header["X-B"])
	want := []string{"<nil>|GET|http://bystander.example/1|[one]", "<nil>|POST|http://bystander.example/2|[two]", "no targets to attack|||[]", "no targets to attack|||[]"}[d.otherK-1]
	if got != want {
		d.tr.Emit("Mixed", KV{"what": "the targeter living next to the one under test was handed something else than its own next target", "got": got, "want": want})
	}
	if d.otherK == 4 {
		d.other = nil
	}
}

var methods = []string{"GET", "POST", "PUT", "DELETE", "HEAD", "PATCH", "OPTIONS", "PURGE", "X"}

func bodyContentOf(name string) string {
	if strings.HasPrefix(name, "empty") {
		return "" // a body file of zero bytes is still the target's own body
	}
	return "body:" + name
}

func (d *c14Drv) bodyFile(name string) string {
	if strings.HasPrefix(name, "far-") {
		// <bodies>/ln is a symbolic link to <bodies>/../far/sub, so <bodies>/ln/../<name> is the file <far>/<name>:
		// a different file than <bodies>/<name>, although the two paths are lexically "the same" once cleaned
		far := filepath.Join(filepath.Dir(d.bodyDir), "far")
		if _, err := os.Stat(filepath.Join(far, "sub")); err != nil {
			must(os.MkdirAll(filepath.Join(far, "sub"), 0o755))
			must(os.Symlink(filepath.Join(far, "sub"), filepath.Join(d.bodyDir, "ln")))
		}
		base := strings.TrimPrefix(name, "far-")
		if _, err := os.Stat(filepath.Join(far, base)); err != nil {
			must(os.WriteFile(filepath.Join(far, base), []byte(bodyContentOf(name)), 0o644))
		}
		return d.bodyDir + "/ln/../" + base
	}
	if rel, ok := strings.CutPrefix(name, "rel:"); ok {
		// a path relative to the working directory (the driver runs inside <bodies>), as written: also one whose own first
		// character is the marker, next to a file of the same name without it
		p := filepath.Join(d.bodyDir, rel)
		if _, err := os.Stat(p); err != nil {
			must(os.MkdirAll(filepath.Dir(p), 0o755))
			must(os.WriteFile(p, []byte(bodyContentOf(name)), 0o644))
			if bare := strings.TrimLeft(rel, "@"); bare != rel {
				must(os.MkdirAll(filepath.Dir(filepath.Join(d.bodyDir, bare)), 0o755))
				must(os.WriteFile(filepath.Join(d.bodyDir, bare), []byte("another file: "+bare), 0o644))
			}
		}
		return rel
	}
	p := filepath.Join(d.bodyDir, name)
	if _, err := os.Stat(p); err != nil {
		must(os.WriteFile(p, []byte(bodyContentOf(name)), 0o644))
	}
	return p
}

// defaults draws a default header set; spare=true gives the value slices spare capacity.
func (d *c14Drv) defaults(spare bool) (http.Header, []hdrPair) {
	h := http.Header{}
	n := d.r.Intn(3)
	for i := 0; i < n; i++ {
		key := []string{"D", "X-Def", "x-def", "Content-Type"}[d.r.Intn(4)]
		if _, ok := h[key]; ok {
			continue
		}
		k := 1 + d.r.Intn(2)
		vs := make([]string, k, k+map[bool]int{true: 1 + d.r.Intn(3), false: 0}[spare])
		for j := range vs {
			vs[j] = fmt.Sprintf("dv%d-%d", i, j)
		}
		h[key] = vs
	}
	if d.cases%6 == 4 || d.many { // a default header with many values (17, 19, 21, 33, 35: lengths a copying idiom does not size exactly)
		k := []int{17, 19, 33, 35, 21}[d.cases/6%5]
		vs := make([]string, k)
		for j := range vs {
			vs[j] = fmt.Sprintf("many-%d", j)
		}
		h["X-Many"] = vs
	}
	return h, hdrList(h)
}

// concretise turns a sequence of line kinds into text lines.
func (d *c14Drv) concretise(kinds []string, defKeys []string) []tline {
	out := make([]tline, len(kinds))
	var ownKeys []string
	for i, k := range kinds {
		ln := tline{K: k}
		switch k {
		case "REQ":
			ln.A = methods[d.r.Intn(len(methods))]
			ln.B = fmt.Sprintf("http://h%d.example:8%03d/p/%d?q=%d", i, d.r.Intn(1000), i, d.r.Intn(10))
			if d.r.Intn(3) == 0 { // the URL is taken as written: no re-serialisation
				ln.B = []string{"HTTP://H%d.Example/Up", "http://h%d.example/a|b^c", "http://h%d.example/caf\u00e9/\u65e5", "http://h%d.example/page#frag", "https://u:p@h%d.example/x?a=b&c=%%20d#f",
					"http://[::1]:8080/%d", "http://h%d.example/%%7Cenc", "http://h%d.example/{x}/\"q\"", "http://h%d.example"}[d.r.Intn(9)]
				ln.B = fmt.Sprintf(ln.B, i)
			}
			ln.text = ln.A + " " + ln.B
			ownKeys = nil
		case "HDR":
			switch c := d.r.Intn(6); {
			case c == 0 && len(defKeys) > 0:
				ln.A = defKeys[d.r.Intn(len(defKeys))] // a key that also occurs in the defaults
			case c == 1 && len(defKeys) > 0:
				ln.A = strings.ToUpper(defKeys[d.r.Intn(len(defKeys))]) // same key in another case
			case c == 2 && len(ownKeys) > 0:
				ln.A = ownKeys[d.r.Intn(len(ownKeys))] // repeated key
			default:
				ln.A = []string{"X-Own", "x-own", "Accept", "k", "Authorization"}[d.r.Intn(5)] + fmt.Sprint(d.r.Intn(3))
			}
			ownKeys = append(ownKeys, ln.A)
			ln.B = fmt.Sprintf("v%d: with colon and  spaces", i)
			// no blank between key and colon: "KEY : v" with an upper-case key reads as a request line (grammar ambiguity, out of domain)
			ln.text = strings.Repeat(" ", d.r.Intn(2)) + ln.A + ":" + strings.Repeat(" ", d.r.Intn(3)) + ln.B + strings.Repeat(" ", d.r.Intn(2))
		case "BODY":
			ln.A = []string{"b0.txt", "b1.txt", "b2.txt", "empty.txt", "run-12:30.bin", "k:v", "far-b0.txt", "far-b1.txt",
				"rel:r0.txt", "rel:./r1.txt", "rel:@latest.json", "rel:@acme/fixtures/order.json"}[d.r.Intn(12)] // a path may contain a colon, lead through a symbolic link, be relative, or start with the marker itself
			ln.B = bodyContentOf(ln.A)
			ln.text = "@" + d.bodyFile(ln.A)
		case "COM":
			ln.text = []string{"#", "# a comment", "#GET http://not.a.target/", "  # indented: comment"}[d.r.Intn(4)]
		case "BLANK":
			ln.text = ""
		case "WS":
			ln.text = []string{" ", "\t", "  \t "}[d.r.Intn(3)]
		}
		out[i] = ln
	}
	return out
}

func targetKV(t *vegeta.Target) KV {
	return KV{"method": t.Method, "url": t.URL, "header": hdrList(t.Header), "body": bodyLog(t.Body)}
}

// bodyLog is the body as the trace shows it: itself, or length and digest when it is large.
func bodyLog(b []byte) string {
	if len(b) <= 2048 {
		return string(b)
	}
	h := fnv.New64a()
	h.Write(b)
	return fmt.Sprintf("big:%d:%x", len(b), h.Sum64())
}

// decodeAll drives a targeter to exhaustion, logging every call and re-inspecting earlier targets.
func (d *c14Drv) decodeAll(tr vegeta.Targeter) { d.decode(tr, false) }

// decode with reuse=true passes one Target variable to every call, the ordinary `var t Target; for tr(&t) == nil {...}`
// loop of a caller (only asked of the http format, which builds every target from scratch; the JSON format documents
// that it merges into what the caller passes).
func (d *c14Drv) decode(tr vegeta.Targeter, reuse bool) {
	var got []*vegeta.Target
	slot := &vegeta.Target{}
	for k := 1; ; k++ {
		t := &vegeta.Target{}
		if reuse {
			t = slot
		}
		err := func() (err error) {
			defer func() {
				if r := recover(); r != nil {
					err = fmt.Errorf("panic: %v", r)
				}
			}()
			return tr(t)
		}()
		if err == vegeta.ErrNoTargets {
			d.tr.Emit("Decode", KV{"k": k, "res": "eof"})
			if k > len(got)+1 {
				break
			}
			continue // call once more: exhaustion must be reported again
		}
		if err != nil {
			d.tr.Emit("Decode", KV{"k": k, "res": "error", "err": err.Error()})
			break
		}
		kv := targetKV(t)
		kv["k"], kv["res"] = k, "target"
		d.tr.Emit("Decode", kv)
		if reuse {
			continue // the caller's variable is overwritten by the next call: nothing to re-inspect
		}
		got = append(got, t)
		// earlier targets must be unchanged: all of them for short documents, a window otherwise
		for j := range got[:len(got)-1] {
			if len(got) > 8 && j != 0 && j < len(got)-4 {
				continue
			}
			kv := targetKV(got[j])
			kv["j"] = j + 1
			d.tr.Emit("Recheck", kv)
		}
	}
	for j := range got {
		kv := targetKV(got[j])
		kv["j"] = j + 1
		d.tr.Emit("Recheck", kv)
	}
}

func (d *c14Drv) httpCase(kinds []string, spare bool, trailingNL bool, eager bool) {
	d.cases++
	defHdr, defList := d.defaults(spare)
	var defKeys []string
	for k := range defHdr {
		defKeys = append(defKeys, k)
	}
	sort.Strings(defKeys)
	lines := d.concretise(kinds, defKeys)
	var defBody []byte
	if d.r.Intn(2) == 0 {
		defBody = []byte("body:<default>")
	}
	nl := "\n"
	if d.r.Intn(8) == 0 {
		nl = "\r\n"
	}
	var sb strings.Builder
	for i, ln := range lines {
		sb.WriteString(ln.text)
		if i < len(lines)-1 || trailingNL {
			sb.WriteString(nl)
		}
	}
	d.tr.Emit("Reset", KV{"format": "http", "lines": lines, "defs": defList, "defbody": string(defBody), "eager": eager, "spare": spare})
	if len(d.samples) < 2 && len(lines) > 3 {
		d.samples = append(d.samples, KV{"document": sb.String()})
	}
	tr := vegeta.NewHTTPTargeter(d.source(sb.String()), defBody, defHdr)
	if d.cases%3 == 0 { // every third document is read in turns with another targeter's
		inner := tr
		tr = func(t *vegeta.Target) error {
			d.bystander()
			err := inner(t)
			d.bystander()
			return err
		}
	}
	if eager {
		tgts, err := vegeta.ReadAllTargets(tr)
		switch {
		case err == vegeta.ErrNoTargets:
			d.tr.Emit("Decode", KV{"k": 1, "res": "eof"})
		case err != nil:
			d.tr.Emit("Decode", KV{"k": 1, "res": "error", "err": err.Error()})
		default:
			for i := range tgts {
				kv := targetKV(&tgts[i])
				kv["k"], kv["res"] = i+1, "target"
				d.tr.Emit("Decode", kv)
			}
			d.tr.Emit("Decode", KV{"k": len(tgts) + 1, "res": "eof"})
			// the static targeter built from them hands them out unchanged
			st := vegeta.NewStaticTargeter(tgts...)
			for i := range tgts {
				var t vegeta.Target
				must(st(&t))
				kv := targetKV(&t)
				kv["j"] = i + 1
				d.tr.Emit("Recheck", kv)
			}
		}
	} else {
		d.decode(tr, d.r.Intn(3) == 0)
	}
	d.tr.Emit("Defaults", KV{"defs": hdrList(defHdr)})
	d.tr.Emit("End", nil)
}

func (d *c14Drv) jsonCase(n int, spare bool, viaEncoder bool) {
	d.cases++
	d.jcases++
	d.many = d.jcases%3 == 1 // (taken in turn over the JSON documents, whatever their place among all cases)
	defHdr, defList := d.defaults(spare)
	d.many = false
	var defBody []byte
	if d.r.Intn(2) == 0 {
		defBody = []byte("body:<default>")
	}
	var lines []tline
	var buf bytes.Buffer
	enc := vegeta.NewJSONTargetEncoder(&buf)
	for i := 0; i < n; i++ {
		if d.r.Intn(5) == 0 {
			ws := []string{"", " ", "\t "}[d.r.Intn(3)]
			k := "BLANK"
			if ws != "" {
				k = "WS"
			}
			lines = append(lines, tline{K: k})
			buf.WriteString(ws + "\n")
		}
		t := vegeta.Target{Method: methods[d.r.Intn(len(methods))], URL: fmt.Sprintf("http://j%d.example/%d?x=\"q\"&y=<%d>", i, i, d.r.Intn(10))}
		ln := tline{K: "OBJ", A: t.Method, B: t.URL}
		if nh := d.r.Intn(4); nh > 0 {
			t.Header = http.Header{}
			for j := 0; j < nh; j++ {
				key := []string{"D", "X-Def", "x-def", "Accept", "X-Own", "x-OWN"}[d.r.Intn(6)]
				if _, many := defHdr["X-Many"]; many && j == 0 {
					key = "X-Many" // every target adds values of its own to the default key with many values
				}
				if _, ok := t.Header[key]; ok {
					continue
				}
				nv := 1 + d.r.Intn(3)
				for v := 0; v < nv; v++ {
					t.Header[key] = append(t.Header[key], fmt.Sprintf("jv%d-%d-%d \"quoted\" é", i, j, v))
				}
			}
			ln.Hdr = hdrList(t.Header)
		}
		if ln.Hdr == nil {
			ln.Hdr = []hdrPair{}
		}
		if d.r.Intn(3) == 0 {
			t.Body = []byte(fmt.Sprintf("body:json-%d %s", i, strings.Repeat("x", d.r.Intn(300))))
			if d.cases%5 == 0 && i == n/2 { // a line far beyond any 64 KiB buffer
				t.Body = append(t.Body, bytes.Repeat([]byte("0123456789abcdef"), 5000+d.r.Intn(2000))...)
			}
			ln.Body = bodyLog(t.Body)
		}
		if viaEncoder {
			must(enc.Encode(&t))
		} else {
			bs, _ := json.Marshal(&t) // an independently written JSON line with surrounding whitespace
			if d.r.Intn(4) == 0 {     // member names are JSON strings like any other: they may be written with escapes
				bs = []byte(strings.NewReplacer(`"method":`, `"\u006dethod":`, `"url":`, `"ur\u006C":`, `"body":`, `"\u0062ody":`, `"header":`, `"h\u0065ader":`).Replace(string(bs)))
			}
			buf.WriteString(strings.Repeat(" ", d.r.Intn(2)))
			buf.Write(bs)
			buf.WriteString(strings.Repeat(" ", d.r.Intn(2)) + "\n")
		}
		lines = append(lines, ln)
	}
	// every object is in its own newline-terminated line: the pinned TestJSONTargeter/no_new_line
	// requires an unterminated last line to be reported as exhaustion, so it is outside the domain
	doc := buf.String()
	d.tr.Emit("Reset", KV{"format": "json", "lines": lines, "defs": defList, "defbody": string(defBody), "spare": spare, "encoder": viaEncoder})
	d.decodeAll(vegeta.NewJSONTargeter(d.source(doc), defBody, defHdr))
	d.tr.Emit("Defaults", KV{"defs": hdrList(defHdr)})
	d.tr.Emit("End", nil)
}

// randomKinds draws a well-formed document of n targets.
func (d *c14Drv) randomKinds(n int) []string {
	var ks []string
	sep := func() {
		for d.r.Intn(3) == 0 {
			ks = append(ks, []string{"COM", "BLANK", "WS"}[d.r.Intn(3)])
		}
	}
	sep()
	for i := 0; i < n; i++ {
		ks = append(ks, "REQ")
		nh := []int{0, 0, 1, 2, 3, 8}[d.r.Intn(6)]
		for j := 0; j < nh; j++ {
			if d.r.Intn(4) == 0 {
				ks = append(ks, "COM")
			}
			ks = append(ks, "HDR")
		}
		hasBody := d.r.Intn(3) == 0
		if hasBody {
			if d.r.Intn(4) == 0 {
				ks = append(ks, "COM")
			}
			ks = append(ks, "BODY")
		}
		if i == n-1 {
			break
		}
		if nh > 0 && !hasBody || d.r.Intn(2) == 0 {
			for c := 0; c < d.r.Intn(2); c++ {
				ks = append(ks, "COM")
			}
			ks = append(ks, []string{"BLANK", "WS"}[d.r.Intn(2)])
		}
		sep()
	}
	sep()
	return ks
}

func TestDrv_C14(t *testing.T) {
	dir := outDir(t)
	d := &c14Drv{tr: NewTracer(filepath.Join(dir, "c14.ndjson")), r: newRand(14), dir: dir, bodyDir: filepath.Join(dir, "bodies")}
	defer d.tr.Close()
	must(os.MkdirAll(d.bodyDir, 0o755))
	t.Chdir(d.bodyDir) // relative body paths are relative to here
	// (G) every well-formed line-kind sequence exported by TLC, with and without spare capacity in
	// the default slices, with and without a trailing newline, lazily and eagerly
	tlc := 0
	must(readNDJSON(os.Getenv("VERIF_CASES"), func(line []byte) error {
		var c struct {
			Kinds []string `json:"kinds"`
		}
		if err := json.Unmarshal(line, &c); err != nil {
			return err
		}
		tlc++
		d.httpCase(c.Kinds, tlc%2 == 0, tlc%3 != 0, tlc%5 == 0)
		return nil
	}))
	// (T) random documents of 1..50 targets, both formats
	n := 150
	if thorough() {
		n = 3000
	}
	for i := 0; i < n; i++ {
		d.httpCase(d.randomKinds(1+d.r.Intn(50)), i%2 == 0, i%3 != 0, i%4 == 0)
		d.jsonCase(1+d.r.Intn(50), i%2 == 1, i%3 != 0)
	}
	// two targets repeating a default key whose slice has spare capacity (the aliasing shape of the model)
	for i := 0; i < 20; i++ {
		d.httpCase([]string{"REQ", "HDR", "BLANK", "REQ", "HDR", "HDR", "BLANK", "REQ"}, true, true, false)
	}
	writeJSON(filepath.Join(dir, "c14.summary.json"), KV{"cases": d.cases, "tlc_cases": tlc, "random_docs": 2 * n, "events": d.tr.N, "samples": d.samples})
}

// source hands the document to the targeter the way different inputs do: at once (a file in memory), a line per Read
// (a pipe written line by line), a byte per Read, or in arbitrary pieces.
func (d *c14Drv) source(doc string) io.Reader {
	switch d.r.Intn(4) {
	case 0:
		return strings.NewReader(doc)
	case 1:
		return &pieceReader{data: []byte(doc), next: func(rest []byte) int {
			if i := strings.IndexByte(string(rest), '\n'); i >= 0 {
				return i + 1
			}
			return len(rest)
		}}
	case 2:
		return &pieceReader{data: []byte(doc), next: func([]byte) int { return 1 }}
	default:
		r := d.r
		return &pieceReader{data: []byte(doc), next: func(rest []byte) int { return 1 + r.Intn(40) }}
	}
}

type pieceReader struct {
	data []byte
	next func(rest []byte) int
}

func (p *pieceReader) Read(b []byte) (int, error) {
	if len(p.data) == 0 {
		return 0, io.EOF
	}
	n := p.next(p.data)
	if n > len(p.data) {
		n = len(p.data)
	}
	if n > len(b) {
		n = len(b)
	}
	copy(b, p.data[:n])
	p.data = p.data[n:]
	return n, nil
}
