package vh

// C12 driver: drives the real vegeta.Histogram, Buckets.UnmarshalText, the
// text/JSON renderings and the report command, logging abstract events that
// spec/report/HistTrace.tla validates against the Histogram contract.

import (
	"bytes"
	"encoding/json"
	"fmt"
	"math/rand"
	"os"
	"path/filepath"
	"sort"
	"strconv"
	"strings"
	"testing"
	"time"
	"unicode"

	vegeta "github.com/tsenart/vegeta/v12/lib"
)

type c12Case struct {
	Bounds []uint64 `json:"bounds"`
	Lat    uint64   `json:"lat"`
	Bucket int      `json:"bucket"`
}

type c12Parse struct {
	Tokens []uint64 `json:"tokens"`
	Bounds []uint64 `json:"bounds"`
}

func c12Key(b []uint64) string { return fmt.Sprint(b) }

// durText renders d in a randomly chosen notation accepted by time.ParseDuration.
func durText(r *rand.Rand, d uint64) string {
	if d == 0 {
		return []string{"0", "0s", "0ms", "0ns", "0h"}[r.Intn(5)]
	}
	type unit struct {
		name string
		ns   uint64
	}
	units := []unit{{"ns", 1}, {"us", 1e3}, {"µs", 1e3}, {"ms", 1e6}, {"s", 1e9}, {"m", 60e9}, {"h", 3600e9}}
	switch r.Intn(3) {
	case 0: // canonical Go rendering, e.g. 1m30s or 1.5ms
		return time.Duration(d).String()
	case 1: // whole multiple of the largest unit that divides it
		for i := len(units) - 1; i >= 0; i-- {
			if d%units[i].ns == 0 {
				return strconv.FormatUint(d/units[i].ns, 10) + units[i].name
			}
		}
	}
	return strconv.FormatUint(d, 10) + "ns"
}

// blanks draws arbitrary spacing: spaces, tabs, line breaks (a list wrapped over several lines in a quoted argument)
func blanks(r *rand.Rand) string {
	var sb strings.Builder
	for n := r.Intn(3); n > 0; n-- {
		sb.WriteString([]string{" ", " ", " ", "\t", "\n", "\r\n", "  "}[r.Intn(7)])
	}
	return sb.String()
}

func bucketsText(r *rand.Rand, tokens []uint64) string {
	var sb strings.Builder
	sb.WriteByte('[')
	for i, tk := range tokens {
		if i > 0 {
			sb.WriteByte(',')
		}
		sb.WriteString(blanks(r))
		sb.WriteString(durText(r, tk))
		sb.WriteString(blanks(r))
	}
	sb.WriteByte(']')
	return sb.String()
}

func toDurs(b []uint64) vegeta.Buckets {
	out := make(vegeta.Buckets, len(b))
	for i, v := range b {
		out[i] = time.Duration(v)
	}
	return out
}

func fromDurs(b vegeta.Buckets) []uint64 {
	out := make([]uint64, len(b))
	for i, v := range b {
		out[i] = uint64(v)
	}
	return out
}

// parseHistJSON reads {"<ns>": count, ...} preserving the order of keys.
func parseHistJSON(bs []byte) (rows [][2]uint64, err error) {
	dec := json.NewDecoder(bytes.NewReader(bs))
	dec.UseNumber()
	tok, err := dec.Token()
	if err != nil || tok != json.Delim('{') {
		return nil, fmt.Errorf("not an object: %q", bs)
	}
	for dec.More() {
		k, err := dec.Token()
		if err != nil {
			return nil, err
		}
		lo, err := strconv.ParseUint(k.(string), 10, 64)
		if err != nil {
			return nil, err
		}
		v, err := dec.Token()
		if err != nil {
			return nil, err
		}
		c, err := strconv.ParseUint(v.(json.Number).String(), 10, 64)
		if err != nil {
			return nil, err
		}
		rows = append(rows, [2]uint64{lo, c})
	}
	return rows, nil
}

// parseHistText reads the rows "[lo, hi] count pct bar" of the text reporter.
var his []string // upper labels of the rows last parsed by parseHistText

func parseHistText(s string) (rows [][2]uint64, err error) {
	his = nil
	lines := strings.Split(strings.TrimRight(s, "\n"), "\n")
	if len(lines) == 0 || !strings.HasPrefix(lines[0], "Bucket") {
		return nil, fmt.Errorf("no header: %q", s)
	}
	for _, ln := range lines[1:] {
		if !strings.HasPrefix(ln, "[") {
			return nil, fmt.Errorf("bad row %q", ln)
		}
		comma := strings.Index(ln, ",")
		end := strings.Index(ln, "]")
		if comma < 0 || end < comma {
			return nil, fmt.Errorf("bad row %q", ln)
		}
		lo, err := time.ParseDuration(strings.TrimSpace(ln[1:comma]))
		if err != nil {
			return nil, err
		}
		his = append(his, strings.TrimSpace(ln[comma+1:end]))
		f := strings.Fields(ln[end+1:])
		if len(f) < 2 {
			return nil, fmt.Errorf("bad row %q", ln)
		}
		c, err := strconv.ParseUint(f[0], 10, 64)
		if err != nil {
			return nil, err
		}
		rows = append(rows, [2]uint64{uint64(lo), c})
	}
	return rows, nil
}

// hiLabels renders the upper labels as BigNat nanoseconds, the open last bucket as the empty list's marker [-1].
func hiLabels() [][]int {
	out := [][]int{}
	for _, h := range his {
		if h == "+Inf" {
			out = append(out, []int{-1})
			continue
		}
		d, err := time.ParseDuration(h)
		if err != nil || d < 0 {
			out = append(out, []int{-2})
			continue
		}
		out = append(out, Big(uint64(d)))
	}
	return out
}

func rowsKV(rows [][2]uint64) [][]any {
	out := make([][]any, len(rows))
	for i, r := range rows {
		out[i] = []any{Big(r[0]), r[1]}
	}
	return out
}

type c12Drv struct {
	inPlace  bool   // the next run re-uses the pooled histogram with its counts zeroed in place
	kept     []byte // the previous MarshalJSON rendering, and its text at the time
	keptText string
	pooled   *vegeta.Histogram
	reps     map[*vegeta.Histogram]vegeta.Reporter
	tr       *Tracer
	cases    int
	samples  []any
}

func (d *c12Drv) guard(what string, f func()) {
	defer func() {
		if r := recover(); r != nil {
			d.tr.Emit("Panic", KV{"what": what, "value": fmt.Sprint(r)})
		}
	}()
	f()
}

func (d *c12Drv) render(h *vegeta.Histogram) {
	d.guard("MarshalJSON", func() {
		bs, err := h.MarshalJSON()
		if err != nil {
			d.tr.Emit("Panic", KV{"what": "MarshalJSON", "value": err.Error()})
			return
		}
		// a rendering belongs to whoever asked for it: the one kept from the previous call (this histogram's or another's) is
		// still what it was
		if d.kept != nil && string(d.kept) != d.keptText {
			d.tr.Emit("Panic", KV{"what": "an earlier MarshalJSON rendering changed when a later one was made", "value": d.keptText + " -> " + string(d.kept)})
		}
		d.kept, d.keptText = bs, string(bs)
		rows, err := parseHistJSON(bs)
		if err != nil {
			d.tr.Emit("Panic", KV{"what": "MarshalJSON output", "value": err.Error()})
			return
		}
		d.tr.Emit("Render", KV{"kind": "json", "rows": rowsKV(rows)})
	})
	d.guard("HistogramReporter", func() {
		var buf bytes.Buffer
		rep := d.reps[h] // a reporter made earlier (before the bounds were set, or for an earlier round of a re-used histogram), if any
		if rep == nil {
			rep = vegeta.NewHistogramReporter(h)
		}
		if err := rep.Report(&buf); err != nil {
			d.tr.Emit("Panic", KV{"what": "HistogramReporter", "value": err.Error()})
			return
		}
		rows, err := parseHistText(buf.String())
		if err != nil {
			d.tr.Emit("Panic", KV{"what": "HistogramReporter output", "value": err.Error()})
			return
		}
		d.tr.Emit("Render", KV{"kind": "text", "rows": rowsKV(rows), "his": hiLabels()})
	})
}

// run drives one histogram: bounds, then the latencies (with the bucket the
// specification expects, or 0 when the case does not come from TLC).
func (d *c12Drv) run(bounds []uint64, lats []uint64, expect []int) {
	d.cases++
	d.tr.Emit("Reset", KV{"bounds": Bigs(bounds)})
	h := &vegeta.Histogram{}
	if d.cases%2 == 0 { // the reporter is built first, the bounds are set afterwards: it reports the histogram as it is when asked
		if d.reps == nil {
			d.reps = map[*vegeta.Histogram]vegeta.Reporter{}
		}
		if len(d.reps) > 64 {
			d.reps = map[*vegeta.Histogram]vegeta.Reporter{d.pooled: d.reps[d.pooled]}
		}
		d.reps[h] = vegeta.NewHistogramReporter(h)
	}
	h.Buckets = toDurs(bounds)
	if d.cases%3 == 0 && d.pooled != nil {
		// a histogram value re-used for a new round through its exported fields: counts truncated (the memory kept), new bounds
		h = d.pooled
		h.Buckets, h.Counts, h.Total = toDurs(bounds), h.Counts[:0], 0
	}
	if d.inPlace && d.pooled != nil && len(d.pooled.Counts) == len(bounds) {
		// ... or, for a new list of as many bounds, zeroed in place
		h = d.pooled
		for i := range h.Counts {
			h.Counts[i] = 0
		}
		h.Buckets, h.Total = toDurs(bounds), 0
	}
	d.inPlace = false
	d.pooled = h
	d.render(h) // "also when no result was added"
	for i, lat := range lats {
		d.guard("Add", func() {
			h.Add(&vegeta.Result{Latency: time.Duration(lat)})
			kv := KV{"lat": Big(lat), "counts": append([]uint64{}, h.Counts...), "total": h.Total}
			if expect != nil {
				kv["expect"] = expect[i]
			}
			d.tr.Emit("Add", kv)
		})
	}
	d.render(h)
}

func TestDrv_C12(t *testing.T) {
	dir := outDir(t)
	d := &c12Drv{tr: NewTracer(filepath.Join(dir, "c12.ndjson"))}
	defer d.tr.Close()
	r := newRand(12)

	// (G) every case exported by TLC from MCHistogram, at two scales: at 1ns a
	// latency one below a bound is truly adjacent to it.
	byBounds := map[string][]c12Case{}
	var order []string
	tlcCases := 0
	must(readNDJSON(os.Getenv("VERIF_CASES"), func(line []byte) error {
		var c c12Case
		if err := json.Unmarshal(line, &c); err != nil {
			return err
		}
		k := c12Key(c.Bounds)
		if _, ok := byBounds[k]; !ok {
			order = append(order, k)
		}
		byBounds[k] = append(byBounds[k], c)
		tlcCases++
		return nil
	}))
	sort.Strings(order)
	for _, scale := range []uint64{1, 1000000} {
		for _, k := range order {
			cs := byBounds[k]
			r.Shuffle(len(cs), func(i, j int) { cs[i], cs[j] = cs[j], cs[i] })
			bounds := make([]uint64, len(cs[0].Bounds))
			for i, b := range cs[0].Bounds {
				bounds[i] = b * scale
			}
			lats := make([]uint64, len(cs))
			exp := make([]int, len(cs))
			for i, c := range cs {
				lats[i], exp[i] = c.Lat*scale, c.Bucket
			}
			d.run(bounds, lats, exp)
		}
	}

	// (G) parser cases exported by TLC, rendered with random spacing and units
	parseCases := 0
	must(readNDJSON(os.Getenv("VERIF_PARSE_CASES"), func(line []byte) error {
		var c c12Parse
		if err := json.Unmarshal(line, &c); err != nil {
			return err
		}
		for _, scale := range []uint64{1, 1000, 1000000, 60000000000} {
			toks := make([]uint64, len(c.Tokens))
			for i, v := range c.Tokens {
				toks[i] = v * scale
			}
			d.parse(r, toks)
			parseCases++
		}
		return nil
	}))

	// specifications whose first bound is negative: the bounds as given, no zero bound in front (it "is added when the
	// first bound is positive")
	for _, c := range [][]uint64{{5e6, 5e6}, {1e9, 0, 250e6}, {1, 0}, {3600e9, 1e6, 2e6, 3e6}, {1000}} {
		d.parseNeg(r, c[0], c[1:])
		parseCases++
	}

	// (T) random bound lists of 1..20 bounds up to hours, latencies on, just
	// below and just above every bound, and anywhere
	nRandom, nLat := 60, 400
	if thorough() {
		nRandom, nLat = 1500, 2000
	}
	for c := 0; c < nRandom; c++ {
		n := 1 + r.Intn(20)
		if c == 1 { // round bounds beyond an hour: 1h, 1h10m, 90m, 2h, 1h0m10s, 3h20m50s ...
			hour := uint64(3600e9)
			toks := []uint64{0, hour, hour + 10e9, hour + 600e9, hour + 1800e9, 2 * hour, 2*hour + 30e9, 3*hour + 1250e9, 10 * hour}
			if bounds := d.parse(r, toks); bounds != nil {
				lats := make([]uint64, 200)
				for i := range lats {
					lats[i] = uint64(r.Int63n(int64(11 * hour)))
				}
				d.run(bounds, lats, nil)
			}
		}
		if c%7 == 0 {
			n = 40 + r.Intn(60) // many buckets
		}
		set := map[uint64]bool{}
		maxv := []uint64{50, 5000, 5e9, 4 * 3600e9}[r.Intn(4)]
		if maxv < uint64(4*n) {
			maxv = uint64(4 * n)
		}
		for len(set) < n {
			set[uint64(r.Int63n(int64(maxv)))] = true
		}
		toks := make([]uint64, 0, n)
		for v := range set {
			toks = append(toks, v)
		}
		sort.Slice(toks, func(i, j int) bool { return toks[i] < toks[j] })
		if r.Intn(3) == 0 {
			toks[0] = 0
		}
		bounds := d.parse(r, toks)
		if bounds == nil {
			continue
		}
		lats := make([]uint64, nLat)
		for i := range lats {
			b := bounds[r.Intn(len(bounds))]
			switch r.Intn(5) {
			case 0:
				lats[i] = b
			case 1:
				if b > 0 {
					lats[i] = b - 1
				}
			case 2:
				lats[i] = b + 1
			case 3:
				lats[i] = uint64(r.Int63n(int64(maxv) * 2))
			default:
				lats[i] = b + uint64(r.Int63n(1000))
			}
		}
		k := len(bounds) / 2
		if c%4 == 1 && k >= 1 {
			lats[len(lats)-1] = bounds[k] + 1 // the last result of this round lies just above a bound
		}
		d.run(bounds, lats, nil)
		if c%4 == 1 && k >= 1 {
			// the same histogram value once more, for another list of as many bounds (the upper ones moved up) and the same
			// latencies, the last one first: its counts zeroed in place.  What was just above a bound is now just below it
			b2, l2 := append([]uint64{}, bounds...), append([]uint64{}, lats...)
			for i := k; i < len(b2); i++ {
				b2[i] += 5 + uint64(i)
			}
			l2[0], l2[len(l2)-1] = l2[len(l2)-1], l2[0]
			d.inPlace = true
			d.run(b2, l2, nil)
		}
		if c < 2 {
			d.samples = append(d.samples, KV{"bounds": bounds, "first_latencies": lats[:5]})
		}
	}

	// command level: report -type=hist[...] and -type=json -buckets over a gob
	// file, including the empty file
	cli := d.cli(t, r, dir)

	writeJSON(filepath.Join(dir, "c12.summary.json"), KV{
		"histograms": d.cases, "events": d.tr.N, "tlc_cases": tlcCases, "parse_cases": parseCases,
		"random_histograms": nRandom, "cli_reports": cli, "samples": d.samples,
	})
}

// parse feeds a textual bucket list to the real parser, logs the outcome and
// returns the bounds it produced (nil on failure).
func (d *c12Drv) parse(r *rand.Rand, toks []uint64) []uint64 {
	text := bucketsText(r, toks)
	var bs vegeta.Buckets
	var err error
	d.guard("UnmarshalText", func() { err = bs.UnmarshalText([]byte(text)) })
	kv := KV{"tokens": Bigs(toks), "text": text, "ok": err == nil, "bounds": Bigs(fromDurs(bs))}
	if err != nil {
		kv["err"] = err.Error()
	}
	d.tr.Emit("Parse", kv)
	if len(d.samples) < 3 {
		d.samples = append(d.samples, KV{"buckets_text": text})
	}
	if err != nil {
		return nil
	}
	return fromDurs(bs)
}

// parseNeg feeds a bucket list whose first bound is -first (the rest follow, non-negative and increasing) to the real parser.
func (d *c12Drv) parseNeg(r *rand.Rand, first uint64, rest []uint64) {
	text := bucketsText(r, append([]uint64{first}, rest...))
	i := strings.IndexFunc(text, func(c rune) bool { return c != '[' && !unicode.IsSpace(c) }) // the sign goes right in front of the first number
	text = text[:i] + "-" + text[i:]
	var bs vegeta.Buckets
	var err error
	d.guard("UnmarshalText", func() { err = bs.UnmarshalText([]byte(text)) })
	signs, abs := make([]int, len(bs)), make([]uint64, len(bs))
	for i, b := range bs {
		switch {
		case b < 0:
			signs[i], abs[i] = -1, uint64(-b)
		case b > 0:
			signs[i], abs[i] = 1, uint64(b)
		}
	}
	kv := KV{"negfirst": Big(first), "rest": Bigs(rest), "text": text, "ok": err == nil, "signs": signs, "abs": Bigs(abs)}
	if err != nil {
		kv["err"] = err.Error()
	}
	d.tr.Emit("ParseNeg", kv)
}

func (d *c12Drv) cli(t *testing.T, r *rand.Rand, dir string) int {
	if os.Getenv("VERIF_MAINDRV") == "" {
		return 0
	}
	type job struct {
		toks   []uint64
		bounds []uint64
		lats   []uint64
		kind   string
		out    string
	}
	var jobs []job
	var ops []map[string]any
	n := 8
	if thorough() {
		n = 60
	}
	for c := 0; c < n; c++ {
		k := 1 + r.Intn(5)
		set := map[uint64]bool{}
		for len(set) < k {
			set[uint64(r.Int63n(5000))*1000] = true
		}
		var toks []uint64
		for v := range set {
			toks = append(toks, v)
		}
		sort.Slice(toks, func(i, j int) bool { return toks[i] < toks[j] })
		bounds := toks
		if toks[0] > 0 {
			bounds = append([]uint64{0}, toks...)
		}
		nl := []int{1, 7, 50}[c%3] // the commands refuse an empty input file (no encoding to detect)
		lats := make([]uint64, nl)
		for i := range lats {
			b := bounds[r.Intn(len(bounds))]
			lats[i] = b + uint64(r.Intn(3)) - 1
			if b == 0 && lats[i] > 1<<62 {
				lats[i] = 0
			}
		}
		in := filepath.Join(dir, fmt.Sprintf("c12in%d.gob", c))
		f, err := os.Create(in)
		must(err)
		enc := vegeta.NewEncoder(f)
		for i, l := range lats {
			e := []string{"", "", "e1", "e1", "connection refused"}[i%5] // repeated error texts
			must(enc.Encode(&vegeta.Result{Seq: uint64(i), Code: 200, Timestamp: time.Unix(1700000000, 0), Latency: time.Duration(l), Error: e}))
		}
		f.Close()
		text := bucketsText(r, toks)
		for _, kind := range []string{"cli-hist", "cli-hist-flag", "cli-json", "cli-hist-flag-repeated"} {
			out := filepath.Join(dir, fmt.Sprintf("c12out%d.%s", c, kind))
			op := map[string]any{"op": "report", "files": []string{in}, "output": out}
			switch kind {
			case "cli-hist":
				op["type"] = "hist" + text
			case "cli-hist-flag":
				op["type"], op["buckets"] = "hist", text
			case "cli-json":
				op["type"], op["buckets"] = "json", text
			case "cli-hist-flag-repeated": // a flag given twice: the later value stands (the buckets are those of the second spec only)
				op["args"] = []string{"-type", "hist", "-buckets", "[0,3ms,7ms]", "-buckets", text, "-output", out, in}
			}
			ops = append(ops, op)
			jobs = append(jobs, job{toks, bounds, lats, kind, out})
		}
	}
	res, err := runMain(dir, ops)
	if err != nil {
		t.Fatalf("main driver: %v", err)
	}
	for i, j := range jobs {
		d.cases++
		d.tr.Emit("Reset", KV{"bounds": Bigs(j.bounds), "via": j.kind})
		for _, l := range j.lats {
			d.tr.Emit("Feed", KV{"lat": Big(l)})
		}
		if p, _ := res[i]["panic"].(string); p != "" {
			d.tr.Emit("Panic", KV{"what": j.kind, "value": p})
			continue
		}
		if e, _ := res[i]["err"].(string); e != "" {
			d.tr.Emit("Panic", KV{"what": j.kind, "value": "error: " + e})
			continue
		}
		bs, err := os.ReadFile(j.out)
		must(err)
		var rows [][2]uint64
		if j.kind == "cli-json" {
			var m struct {
				Buckets json.RawMessage `json:"buckets"`
			}
			if err = json.Unmarshal(bs, &m); err == nil {
				rows, err = parseHistJSON(m.Buckets)
			}
		} else {
			rows, err = parseHistText(string(bs))
		}
		if err != nil {
			d.tr.Emit("Panic", KV{"what": j.kind + " output", "value": err.Error()})
			continue
		}
		d.tr.Emit("Render", KV{"kind": j.kind, "rows": rowsKV(rows)})
	}
	return len(jobs)
}
