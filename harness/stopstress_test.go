package vh

// Real-time stress of Attacker.Stop (C02, "exactly one of all Stop calls
// reports that it initiated the stop"): N attackers, each stopped by 8
// goroutines released together.  Logged as StopCall/StopRet events of the
// AttackContract; no time is asserted, only the order of the log.

import (
	"bytes"
	"fmt"
	"io"
	"net/http"
	"path/filepath"
	"runtime"
	"sync"
	"sync/atomic"
	"testing"
	"time"

	vegeta "github.com/tsenart/vegeta/v12/lib"
)

func TestDrv_StopStress(t *testing.T) {
	dir := outDir(t)
	n := int(envInt("VERIF_STOP_ATTACKERS", 20000))
	const P, callers = 16, 8
	var wg sync.WaitGroup
	for s := 0; s < P; s++ {
		wg.Add(1)
		go func(s int) {
			defer wg.Done()
			tr := NewTracer(filepath.Join(dir, fmt.Sprintf("stop_%02d.ndjson", s)))
			defer tr.Close()
			for i := s; i < n; i += P {
				atk := vegeta.NewAttacker()
				tr.Emit("Reset", KV{"id": i, "workers": 0, "maxw": -1, "du": 0, "name": "", "script": "stop-stress"})
				var gate atomic.Bool
				var cw sync.WaitGroup
				for c := 1; c <= callers; c++ {
					cw.Add(1)
					go func(c int) {
						defer cw.Done()
						for !gate.Load() {
							runtime.Gosched()
						}
						tr.Emit("StopCall", KV{"t": 0, "id": c})
						ret := atk.Stop()
						tr.Emit("StopRet", KV{"t": 0, "id": c, "ret": ret})
					}(c)
				}
				gate.Store(true)
				cw.Wait()
			}
		}(s)
	}
	wg.Wait()
	// Stop aimed at the moment the pool grows: tiny attacks that start without a worker (the first tick makes the loop start
	// one), stopped at once from another goroutine.  Whatever the interleaving, the results channel is closed in the end.
	grow := n
	var wedged atomic.Int64
	for s := 0; s < P; s++ {
		wg.Add(1)
		go func(s int) {
			defer wg.Done()
			tr := NewTracer(filepath.Join(dir, fmt.Sprintf("stop_grow_%02d.ndjson", s)))
			defer tr.Close()
			rt := roundTripFunc(func(req *http.Request) (*http.Response, error) {
				return &http.Response{Status: "200 OK", StatusCode: 200, Proto: "HTTP/1.1", ProtoMajor: 1, ProtoMinor: 1, Header: http.Header{},
					Body: io.NopCloser(bytes.NewReader(nil)), Request: req}, nil
			})
			tgt := vegeta.NewStaticTargeter(vegeta.Target{Method: "GET", URL: "http://verif.invalid/"})
			for i := s; i < grow; i += P {
				atk := vegeta.NewAttacker(vegeta.Client(&http.Client{Transport: rt}), vegeta.Workers(0))
				tr.Emit("Reset", KV{"id": n + i, "workers": 0, "maxw": -1, "du": 0, "name": "", "script": "stop-while-the-pool-grows"})
				results := atk.Attack(tgt, firstThenSlowly{}, 0, "") // ends only by the Stop below
				stopped := make(chan struct{})
				go func(spin int) {
					defer close(stopped)
					for k := 0; k < spin; k++ {
						runtime.Gosched()
					}
					tr.Emit("StopCall", KV{"t": 0, "id": 1})
					ret := atk.Stop()
					tr.Emit("StopRet", KV{"t": 0, "id": 1, "ret": ret})
				}(i % 4)
				closed := false
				deadline := time.After(5 * time.Second)
			drain:
				for {
					select {
					case _, ok := <-results:
						if !ok {
							closed = true
							break drain
						}
					case <-deadline:
						break drain
					}
				}
				<-stopped
				if closed {
					tr.Emit("Try", KV{"t": 0})
					tr.Emit("Closed", KV{"t": 0})
				} else {
					wedged.Add(1)
					tr.Emit("Horizon", KV{"t": 0})
				}
			}
		}(s)
	}
	wg.Wait()
	writeJSON(filepath.Join(dir, "stop.summary.json"), KV{"attackers": n, "callers": callers, "stopped_while_growing": grow, "wedged": wedged.Load()})
}

// firstThenSlowly releases the first hit at once and one per millisecond afterwards, for ever.
type firstThenSlowly struct{}

func (firstThenSlowly) Pace(_ time.Duration, hits uint64) (time.Duration, bool) {
	if hits == 0 {
		return 0, false
	}
	return time.Millisecond, false
}
func (firstThenSlowly) Rate(time.Duration) float64 { return 1000 }
