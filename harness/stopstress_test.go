package vh

// Real-time stress of Attacker.Stop (C02, "exactly one of all Stop calls
// reports that it initiated the stop"): N attackers, each stopped by 8
// goroutines released together.  Logged as StopCall/StopRet events of the
// AttackContract; no time is asserted, only the order of the log.

import (
	"fmt"
	"path/filepath"
	"runtime"
	"sync"
	"sync/atomic"
	"testing"

	vegeta "github.com/tsenart/vegeta/v12/lib"
)

func TestDrv_StopStress(t *testing.T) {
	dir := outDir(t)
	n := int(envInt("VERIF_STOP_ATTACKERS", 20000))
	const P, callers = 16, 8
	var wg sync.WaitGroup
	for s := 0; s < P; s++ {
		wg.Add(1)
		go func(s int) {
			defer wg.Done()
			tr := NewTracer(filepath.Join(dir, fmt.Sprintf("stop_%02d.ndjson", s)))
			defer tr.Close()
			for i := s; i < n; i += P {
				atk := vegeta.NewAttacker()
				tr.Emit("Reset", KV{"id": i, "workers": 0, "maxw": -1, "du": 0, "name": "", "script": "stop-stress"})
				var gate atomic.Bool
				var cw sync.WaitGroup
				for c := 1; c <= callers; c++ {
					cw.Add(1)
					go func(c int) {
						defer cw.Done()
						for !gate.Load() {
							runtime.Gosched()
						}
						tr.Emit("StopCall", KV{"t": 0, "id": c})
						ret := atk.Stop()
						tr.Emit("StopRet", KV{"t": 0, "id": c, "ret": ret})
					}(c)
				}
				gate.Store(true)
				cw.Wait()
			}
		}(s)
	}
	wg.Wait()
	writeJSON(filepath.Join(dir, "stop.summary.json"), KV{"attackers": n, "callers": callers})
}
