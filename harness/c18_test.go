package vh

// C18 driver: the real option stack - a client whose transport has a recording
// DialContext, wrapped by DNSCaching and/or ConnectTo - performs hits against
// names served by an in-process DNS server installed as net.DefaultResolver
// (exactly as attack.go installs a custom resolver).  Every address handed to
// the recording dialer is logged for spec/dial/DialTrace.tla.

import (
	"context"
	"errors"
	"fmt"
	"net"
	"net/http"
	"os"
	"path/filepath"
	"runtime"
	"strings"
	"sync"
	"syscall"
	"testing"
	"time"

	"github.com/miekg/dns"
	vegeta "github.com/tsenart/vegeta/v12/lib"
)

var (
	dnsMu      sync.Mutex
	dnsRecords = map[string][]net.IP{} // fqdn -> addresses
	dnsQueries = 0
)

func startDNS(t *testing.T) func() {
	dns.HandleFunc(".", func(w dns.ResponseWriter, r *dns.Msg) {
		m := &dns.Msg{}
		m.SetReply(r)
		if len(r.Question) == 1 {
			q := r.Question[0]
			dnsMu.Lock()
			ips, ok := dnsRecords[strings.ToLower(q.Name)]
			dnsQueries++
			dnsMu.Unlock()
			if !ok {
				m.SetRcode(r, dns.RcodeNameError)
			}
			for _, ip := range ips {
				h := dns.RR_Header{Name: q.Name, Class: dns.ClassINET, Ttl: 60}
				if ip4 := ip.To4(); ip4 != nil && q.Qtype == dns.TypeA {
					h.Rrtype = dns.TypeA
					m.Answer = append(m.Answer, &dns.A{Hdr: h, A: ip4})
				} else if ip4 == nil && q.Qtype == dns.TypeAAAA {
					h.Rrtype = dns.TypeAAAA
					m.Answer = append(m.Answer, &dns.AAAA{Hdr: h, AAAA: ip})
				}
			}
		}
		_ = w.WriteMsg(m)
	})
	started := make(chan struct{})
	srv := &dns.Server{Addr: "127.0.0.1:0", Net: "udp", NotifyStartedFunc: func() { close(started) }}
	go func() { _ = srv.ListenAndServe() }()
	select {
	case <-started:
	case <-time.After(5 * time.Second):
		t.Fatal("in-process DNS server did not start")
	}
	addr := srv.PacketConn.LocalAddr().String()
	saved := net.DefaultResolver
	net.DefaultResolver = &net.Resolver{PreferGo: true, Dial: func(ctx context.Context, network, _ string) (net.Conn, error) {
		var d net.Dialer
		return d.DialContext(ctx, "udp", addr)
	}}
	_ = saved
	// net.DefaultResolver is left in place: a cache refresh of an attack that has not been told to stop may still
	// be resolving, and writing the variable back would race with it (a race of this harness, not of the code under test)
	return func() {}
}

type dialRec struct {
	mu        sync.Mutex
	addrs     []string
	tr        *Tracer // non-nil: log every dial as it happens (concurrent runs)
	blackhole string  // dials to this address hang until their context ends
	n         int     // dials so far
}

func (d *dialRec) dial(ctx context.Context, network, addr string) (net.Conn, error) {
	d.mu.Lock()
	d.addrs = append(d.addrs, addr)
	if d.tr != nil {
		d.tr.Emit("Dial", KV{"addr": addr})
	}
	hole := d.blackhole != "" && addr == d.blackhole
	d.mu.Unlock()
	if hole { // a peer that never answers: the dial ends when its context does
		<-ctx.Done()
		return nil, ctx.Err()
	}
	// no dial connects; why not varies the way it does on a real network (a transient failure of one address says nothing
	// about the next attempt)
	d.mu.Lock()
	d.n++
	n := d.n
	d.mu.Unlock()
	switch n % 5 {
	case 1:
		return nil, &net.OpError{Op: "dial", Net: network, Err: os.NewSyscallError("connect", syscall.ECONNREFUSED)}
	case 2:
		return nil, &net.OpError{Op: "dial", Net: network, Err: os.NewSyscallError("connect", syscall.ENETUNREACH)}
	case 3:
		return nil, &net.OpError{Op: "dial", Net: network, Err: os.NewSyscallError("connect", syscall.EHOSTUNREACH)}
	case 4:
		return nil, &net.OpError{Op: "dial", Net: network, Err: os.NewSyscallError("connect", syscall.ETIMEDOUT)}
	}
	return nil, errors.New("recorded, not connected")
}

func (d *dialRec) take() []string {
	d.mu.Lock()
	defer d.mu.Unlock()
	out := d.addrs
	d.addrs = nil
	if out == nil {
		out = []string{}
	}
	return out
}

type countPacer struct {
	n    int
	gate chan struct{} // non-nil: the next hit is released only after the consumer handled the previous result
}

func (p *countPacer) Pace(_ time.Duration, hits uint64) (time.Duration, bool) {
	if p.gate != nil && hits > 0 {
		<-p.gate
	}
	return 0, int(hits) >= p.n
}
func (p *countPacer) Rate(time.Duration) float64 { return 0 }

func TestDrv_C18(t *testing.T) {
	dir := outDir(t)
	tr := NewTracer(filepath.Join(dir, "c18.ndjson"))
	defer tr.Close()
	stop := startDNS(t)
	defer stop()
	type hostSet struct {
		name string
		v4   int
		v6   int
	}
	sets := []hostSet{{"one4.test.", 1, 0}, {"three4.test.", 3, 0}, {"eight4.test.", 8, 0}, {"two6.test.", 0, 2}, {"dual32.test.", 3, 2}, {"dual44.test.", 4, 4}, {"dual11.test.", 1, 1}}
	for si, hs := range sets {
		var ips []net.IP
		for i := 0; i < hs.v4; i++ {
			ips = append(ips, net.ParseIP(fmt.Sprintf("10.%d.0.%d", si+1, i+1)))
		}
		for i := 0; i < hs.v6; i++ {
			ips = append(ips, net.ParseIP(fmt.Sprintf("fd00:%d::%d", si+1, i+1)))
		}
		dnsMu.Lock()
		dnsRecords[hs.name] = ips
		dnsMu.Unlock()
	}
	half := 300 // (7/8)^300 * 8 < 1e-16: every one of up to 8 addresses of a family is drawn within 300 attempts
	runs := 0
	var samples []any
	resolvedOf := func(hs hostSet, port string) []KV {
		var out []KV
		dnsMu.Lock()
		for _, ip := range dnsRecords[hs.name] {
			fam := 6
			if ip.To4() != nil {
				fam = 4
			}
			out = append(out, KV{"addr": net.JoinHostPort(ip.String(), port), "fam": fam})
		}
		dnsMu.Unlock()
		return out
	}
	attack := func(opts []func(*vegeta.Attacker), url string, hits int, workers uint64, each func(r *vegeta.Result)) {
		atk := vegeta.NewAttacker(append(opts, vegeta.Workers(workers), vegeta.MaxWorkers(workers), vegeta.Timeout(5*time.Second))...)
		var tgts []vegeta.Target
		for _, u := range strings.Split(url, " ") {
			tgts = append(tgts, vegeta.Target{Method: "GET", URL: u})
		}
		tgt := vegeta.NewStaticTargeter(tgts...)
		pacer := &countPacer{n: hits}
		if each != nil {
			pacer.gate = make(chan struct{}, 1)
		}
		for r := range atk.Attack(tgt, pacer, 0, "c18") {
			if each != nil {
				each(r)
				pacer.gate <- struct{}{}
			}
		}
	}
	newStack := func(rec *dialRec, order string, ttl time.Duration, cmap map[string][]string) []func(*vegeta.Attacker) {
		opts := []func(*vegeta.Attacker){vegeta.Client(&http.Client{Transport: &http.Transport{DialContext: rec.dial, DisableKeepAlives: true}})}
		switch order {
		case "dns":
			opts = append(opts, vegeta.DNSCaching(ttl))
		case "connect":
			opts = append(opts, vegeta.ConnectTo(cmap))
		case "dns+connect": // the documented order
			opts = append(opts, vegeta.DNSCaching(ttl), vegeta.ConnectTo(cmap))
		case "connect+dns":
			opts = append(opts, vegeta.ConnectTo(cmap), vegeta.DNSCaching(ttl))
		}
		return opts
	}
	for _, hs := range sets {
		host := strings.TrimSuffix(hs.name, ".")
		// DNS caching alone, sequential then concurrent
		for _, sequential := range []bool{true, false} {
			rec := &dialRec{}
			runs++
			tr.Emit("Reset", KV{"mode": "dns", "sequential": sequential, "resolved": resolvedOf(hs, "8080"), "mapped": []string{}, "passthru": false,
				"half": half, "host": host, "target": host + ":8080"})
			if sequential {
				k := 0
				attack(newStack(rec, "dns", 0, nil), "http://"+host+":8080/", 2*half, 1, func(*vegeta.Result) {
					k++
					tr.Emit("Attempt", KV{"k": k, "dialed": rec.take()})
				})
			} else {
				rec.tr = tr
				attack(newStack(rec, "dns", 0, nil), "http://"+host+":8080/", 2*half+200, 64, nil)
			}
			tr.Emit("End", nil)
		}
		// ConnectTo in front of DNS caching (documented order): the mapped name is resolved
		rec := &dialRec{}
		runs++
		tr.Emit("Reset", KV{"mode": "both", "sequential": true, "resolved": resolvedOf(hs, "9090"), "mapped": []string{}, "passthru": false,
			"half": half, "host": host, "target": "front.test:80"})
		k := 0
		attack(newStack(rec, "dns+connect", 0, map[string][]string{"front.test:80": {host + ":9090"}}), "http://front.test:80/", 2*half, 1, func(*vegeta.Result) {
			k++
			tr.Emit("Attempt", KV{"k": k, "dialed": rec.take()})
		})
		tr.Emit("End", nil)
		if len(samples) < 2 {
			samples = append(samples, KV{"host": host, "resolved": resolvedOf(hs, "8080")})
		}
	}
	// ConnectTo alone: rotation over 1..4 replacements, sequential (exact) and concurrent (even), and an unmapped address
	for _, nrep := range []int{1, 2, 3, 4, 11} {
		var repl []string
		for i := 0; i < nrep; i++ {
			repl = append(repl, fmt.Sprintf("10.9.%d.%d:%d", nrep, i+1, 7000+i))
		}
		key := "mapped.test:80"
		if nrep%2 == 0 { // names are matched as written
			key = "Mapped.Test:80"
		}
		cmap := map[string][]string{key: repl, "other.test:80": {"10.9.9.9:1"}}
		for _, sequential := range []bool{true, false} {
			rec := &dialRec{}
			runs++
			tr.Emit("Reset", KV{"mode": "connect", "sequential": sequential, "resolved": []KV{}, "mapped": repl, "passthru": false, "half": 0, "target": key})
			if sequential {
				k := 0
				attack(newStack(rec, "connect", 0, cmap), "http://"+key+"/", 25+nrep, 1, func(*vegeta.Result) {
					k++
					tr.Emit("Attempt", KV{"k": k, "dialed": rec.take()})
				})
			} else {
				rec.tr = tr
				attack(newStack(rec, "connect", 0, cmap), "http://"+key+"/", 1000+nrep, 64, nil)
			}
			tr.Emit("End", nil)
		}
		rec := &dialRec{}
		runs++
		tr.Emit("Reset", KV{"mode": "connect", "sequential": true, "resolved": []KV{}, "mapped": repl, "passthru": true, "half": 0, "target": "10.1.2.3:8081"})
		k := 0
		attack(newStack(rec, "connect", 0, cmap), "http://10.1.2.3:8081/", 5, 1, func(*vegeta.Result) {
			k++
			tr.Emit("Attempt", KV{"k": k, "dialed": rec.take()})
		})
		tr.Emit("End", nil)
	}
	// two mapped addresses whose dials alternate: each rotates over its own replacements
	{
		replA := []string{"10.8.1.1:7001", "10.8.1.2:7002"}
		replB := []string{"10.8.2.1:7101", "10.8.2.2:7102", "10.8.2.3:7103"}
		cmap := map[string][]string{"a.test:80": replA, "b.test:80": replB}
		for _, pattern := range []string{"http://a.test:80/ http://b.test:80/", "http://a.test:80/ http://a.test:80/ http://b.test:80/"} {
			rec := &dialRec{}
			perKey := map[string][][]string{}
			attack(newStack(rec, "connect", 0, cmap), pattern, 37, 1, func(r *vegeta.Result) {
				key := "a"
				if strings.Contains(r.URL, "b.test") {
					key = "b"
				}
				perKey[key] = append(perKey[key], rec.take())
			})
			for key, repl := range map[string][]string{"a": replA, "b": replB} {
				runs++
				tr.Emit("Reset", KV{"mode": "connect", "sequential": true, "resolved": []KV{}, "mapped": repl, "passthru": false, "half": 0,
					"target": key + ".test:80", "interleaved_with_other_key": pattern})
				for i, d := range perKey[key] {
					tr.Emit("Attempt", KV{"k": i + 1, "dialed": d})
				}
				tr.Emit("End", nil)
			}
		}
	}
	// a positive ttl: after the answer of a host has changed and the attacker has been idle for many ttls (the entry was
	// not used, so the refresher dropped it), the next dial goes to an address the host resolves to NOW
	{
		name := "shifting.test."
		setIPs := func(ips ...string) {
			var l []net.IP
			for _, ip := range ips {
				l = append(l, net.ParseIP(ip))
			}
			dnsMu.Lock()
			dnsRecords[name] = l
			dnsMu.Unlock()
		}
		setIPs("10.66.0.1")
		rec := &dialRec{}
		atk := vegeta.NewAttacker(append(newStack(rec, "dns", 40*time.Millisecond, nil), vegeta.Workers(1), vegeta.MaxWorkers(1), vegeta.Timeout(5*time.Second))...)
		gate := make(chan struct{}, 1)
		pacer := &countPacer{n: 2, gate: gate}
		results := atk.Attack(vegeta.NewStaticTargeter(vegeta.Target{Method: "GET", URL: "http://shifting.test:8080/"}), pacer, 0, "c18")
		dnsMu.Lock()
		q0 := dnsQueries
		dnsMu.Unlock()
		<-results
		first := rec.take()
		// the answer changes after the refresher has re-resolved the entry once (so that the cache holds the old answer,
		// freshly confirmed); from then on nobody dials
		for i := 0; i < 400; i++ {
			dnsMu.Lock()
			q := dnsQueries
			dnsMu.Unlock()
			if q >= q0+4 {
				break
			}
			time.Sleep(5 * time.Millisecond)
		}
		setIPs("10.66.0.2", "10.66.0.3")
		time.Sleep(1200 * time.Millisecond) // 30 ttls without a dial
		gate <- struct{}{}
		<-results
		second := rec.take()
		gate <- struct{}{}
		for range results {
		}
		runs += 2
		tr.Emit("Reset", KV{"mode": "dns", "sequential": true, "resolved": []KV{{"addr": "10.66.0.1:8080", "fam": 4}}, "mapped": []string{}, "passthru": false,
			"half": 0, "host": "shifting.test", "target": "shifting.test:8080", "phase": "before the answer changed"})
		tr.Emit("Attempt", KV{"k": 1, "dialed": first}) // (no End: one attempt says nothing about every address being used over time)
		tr.Emit("Reset", KV{"mode": "dns", "sequential": true, "resolved": []KV{{"addr": "10.66.0.2:8080", "fam": 4}, {"addr": "10.66.0.3:8080", "fam": 4}}, "mapped": []string{},
			"passthru": false, "half": 0, "host": "shifting.test", "target": "shifting.test:8080", "phase": "answer changed, 30 ttls idle"})
		tr.Emit("Attempt", KV{"k": 1, "dialed": second})
	}
	// a replacement that never answers, on a transport whose dials end with the request (h2c + Timeout): the abandoned dial has
	// had its turn, the rotation goes on
	{
		repl := []string{"10.6.1.1:7001", "10.6.1.2:7002", "10.6.1.3:7003"}
		rec := &dialRec{blackhole: repl[1]}
		runs++
		tr.Emit("Reset", KV{"mode": "connect", "sequential": true, "resolved": []KV{}, "mapped": repl, "passthru": false, "half": 0, "target": "hole.test:80",
			"composition": "ConnectTo, H2C, Timeout(30ms); the second replacement is a black hole"})
		atk := vegeta.NewAttacker(vegeta.Client(&http.Client{Transport: &http.Transport{DialContext: rec.dial, DisableKeepAlives: true}}),
			vegeta.ConnectTo(map[string][]string{"hole.test:80": repl}), vegeta.H2C(true), vegeta.Timeout(30*time.Millisecond), vegeta.Workers(1), vegeta.MaxWorkers(1))
		pacer := &countPacer{n: 12, gate: make(chan struct{}, 1)}
		k := 0
		for range atk.Attack(vegeta.NewStaticTargeter(vegeta.Target{Method: "GET", URL: "http://hole.test:80/"}), pacer, 0, "c18") {
			k++
			tr.Emit("Attempt", KV{"k": k, "dialed": rec.take()})
			pacer.gate <- struct{}{}
		}
		tr.Emit("End", nil)
	}
	// one ConnectTo option value given to two attackers that take turns: each rotates over the replacements on its own
	{
		repl := []string{"10.7.1.1:7001", "10.7.1.2:7002"}
		shared := vegeta.ConnectTo(map[string][]string{"shared.test:80": repl})
		recs := [2]*dialRec{{}, {}}
		var chans [2]<-chan *vegeta.Result
		var pacers [2]*countPacer
		for i := range recs {
			atk := vegeta.NewAttacker(vegeta.Client(&http.Client{Transport: &http.Transport{DialContext: recs[i].dial, DisableKeepAlives: true}}),
				shared, vegeta.Workers(1), vegeta.MaxWorkers(1), vegeta.Timeout(5*time.Second))
			pacers[i] = &countPacer{n: 12, gate: make(chan struct{}, 1)}
			chans[i] = atk.Attack(vegeta.NewStaticTargeter(vegeta.Target{Method: "GET", URL: "http://shared.test:80/"}), pacers[i], 0, "c18")
		}
		var per [2][][]string
		for open := 2; open > 0; {
			open = 0
			for i := range chans { // strictly alternating: a result of the first attacker, then one of the second
				if _, ok := <-chans[i]; ok {
					open++
					per[i] = append(per[i], recs[i].take())
					pacers[i].gate <- struct{}{}
				}
			}
		}
		for i := range per {
			runs++
			tr.Emit("Reset", KV{"mode": "connect", "sequential": true, "resolved": []KV{}, "mapped": repl, "passthru": false, "half": 0,
				"target": "shared.test:80", "option_value_shared_by_attackers": 2, "attacker": i + 1})
			for k, d := range per[i] {
				tr.Emit("Attempt", KV{"k": k + 1, "dialed": d})
			}
			tr.Emit("End", nil)
		}
	}
	// every combination in both orders, with a refreshing cache, under concurrency: the race build reports data races
	for _, order := range []string{"dns", "connect", "dns+connect", "connect+dns"} {
		rec := &dialRec{}
		attack(newStack(rec, order, 50*time.Millisecond, map[string][]string{"dual32.test:80": {"dual44.test:81", "three4.test:82"}}), "http://dual32.test:80/", 1500, 64, nil)
		runs++
	}
	// the cache-refresh goroutine of a positive ttl runs while the attack runs and stops with it
	{
		// goroutines started by the DNSCaching option (their "created by" line names it).  Counted when no dial is in
		// flight - right after the attacker was built, and after the attack has ended - so that only the cache
		// refresher can be among them, whatever the closures are called.
		countRefreshers := func() int {
			buf := make([]byte, 1<<22)
			buf = buf[:runtime.Stack(buf, true)]
			n := 0
			for _, g := range strings.Split(string(buf), "\n\n") {
				if i := strings.LastIndex(g, "created by "); i >= 0 && strings.Contains(g[i:], "DNSCaching") {
					n++
				}
			}
			return n
		}
		before := countRefreshers()
		dnsMu.Lock()
		q0 := dnsQueries
		dnsMu.Unlock()
		rec := &dialRec{}
		atk := vegeta.NewAttacker(append(newStack(rec, "dns", 20*time.Millisecond, nil), vegeta.Workers(1), vegeta.MaxWorkers(1))...)
		time.Sleep(5 * time.Millisecond)
		during := countRefreshers() - before // no dial yet: the refresher alone
		tgt := vegeta.NewStaticTargeter(vegeta.Target{Method: "GET", URL: "http://dual32.test:80/"})
		results := atk.Attack(tgt, vegeta.ConstantPacer{Freq: 200, Per: time.Second}, 0, "refresh")
		n := 0
		for range results {
			n++
			if n == 40 { // ~200 ms: about ten refresh periods
				atk.Stop()
			}
		}
		after := -1
		for i := 0; i < 200; i++ { // the goroutine leaves at its next select; give it time, assert nothing about how long
			if after = countRefreshers() - before; after == 0 {
				break
			}
			time.Sleep(5 * time.Millisecond)
		}
		dnsMu.Lock()
		q1 := dnsQueries
		dnsMu.Unlock()
		runs++
		tr.Emit("Reset", KV{"mode": "refresh", "sequential": true, "resolved": []KV{}, "mapped": []string{}, "passthru": false, "half": 0})
		tr.Emit("Refresh", KV{"running_during_attack": during, "running_after_stop": after, "queries_during_attack": q1 - q0})
	}
	// the same option stacks over a transport the caller built without a dial function of its own (the options then dial with the
	// Attacker's dialer): nothing is recorded here - the mapped destination is a closed loopback port, every hit fails - the
	// run is for the race detector ("for every combination of attacker options ... no data race in the dial path")
	for _, order := range []string{"dns", "connect", "dns+connect", "connect+dns"} {
		opts := []func(*vegeta.Attacker){vegeta.Client(&http.Client{Transport: &http.Transport{DisableKeepAlives: true}}), vegeta.Workers(16), vegeta.MaxWorkers(16),
			vegeta.Timeout(2 * time.Second)}
		cmap := map[string][]string{"blind.invalid:8080": {"127.0.0.1:1", "127.0.0.1:2"}}
		switch order {
		case "dns":
			opts = append(opts, vegeta.DNSCaching(0))
		case "connect":
			opts = append(opts, vegeta.ConnectTo(cmap))
		case "dns+connect":
			opts = append(opts, vegeta.DNSCaching(0), vegeta.ConnectTo(cmap))
		case "connect+dns":
			opts = append(opts, vegeta.ConnectTo(cmap), vegeta.DNSCaching(0))
		}
		atk := vegeta.NewAttacker(opts...)
		url := "http://blind.invalid:8080/"
		if order == "dns" {
			url = "http://127.0.0.1:1/"
		}
		for range atk.Attack(vegeta.NewStaticTargeter(vegeta.Target{Method: "GET", URL: url}), &countPacer{n: 200}, 0, "blind") {
		}
		runs++
	}
	dnsMu.Lock()
	q := dnsQueries
	dnsMu.Unlock()
	writeJSON(filepath.Join(dir, "c18.summary.json"), KV{"runs": runs, "events": tr.N, "dns_queries": q, "samples": samples})
}
