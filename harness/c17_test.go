package vh

// C17 driver: the real lttb.Downsample with an instrumented iterator for every
// (count, threshold) pair, and the real Plot fed with result sets in several
// arrival orders (rows through the verif export and from the written HTML).

import (
	"encoding/json"
	"fmt"
	"golang.org/x/net/html"
	"io"
	"math"
	"math/rand"
	"os"
	"path/filepath"
	"sort"
	"strconv"
	"strings"
	"testing"
	"time"

	vegeta "github.com/tsenart/vegeta/v12/lib"
	"github.com/tsenart/vegeta/v12/lib/lttb"
	"github.com/tsenart/vegeta/v12/lib/plot"
)

type plotRes struct {
	Seq int   `json:"seq"`
	Ms  int   `json:"ms"`
	Sub int   `json:"sub"`
	Err bool  `json:"err"`
	Y   []int `json:"y"`
	lat time.Duration
}

type plotAtk struct {
	Name    string    `json:"name"`
	Results []plotRes `json:"results"`
}

func downsampleCase(tr *Tracer, r *rand.Rand, count, threshold int) {
	pts := make([]lttb.Point, count)
	for i := range pts {
		pts[i] = lttb.Point{X: float64(i), Y: r.Float64() * 100}
	}
	pos := 0
	it := func(n int) ([]lttb.Point, error) {
		if n < 0 {
			n = 0
		}
		if pos+n > count {
			n = count - pos
		}
		out := pts[pos : pos+n]
		pos += n
		return out, nil
	}
	var out []lttb.Point
	var err error
	func() {
		defer func() {
			if p := recover(); p != nil {
				err = fmt.Errorf("panic: %v", p)
				tr.Emit("Panic", KV{"what": "Downsample", "count": count, "threshold": threshold, "value": fmt.Sprint(p)})
			}
		}()
		out, err = lttb.Downsample(count, threshold, it)
	}()
	idx := []int{}
	for _, p := range out {
		i := int(p.X)
		if i < 0 || i >= count || pts[i] != p {
			i = -1
		}
		idx = append(idx, i)
	}
	tr.Emit("Down", KV{"count": count, "threshold": threshold, "out": idx, "err": err != nil})
}

type rowT struct {
	X     int    `json:"x"`
	Label string `json:"label"`
	Y     []int  `json:"y"`
}

func rowsFrom(data [][]float64, labels []string) []rowT {
	rows := []rowT{}
	for _, d := range data {
		lb := "<none>"
		var y float64
		for j := 1; j < len(d); j++ {
			if !math.IsNaN(d[j]) {
				if lb != "<none>" {
					lb = "<several values in one row>"
				} else {
					lb, y = labels[j], d[j]
				}
			}
		}
		rows = append(rows, rowT{int(math.Round(d[0] * 1000)), lb, Big(uint64(math.Round(y * 1e6)))})
	}
	return rows
}

// parseHTML extracts labels and data rows from the page written by the plot command.
func parseHTML(page string) ([][]float64, []string, error) {
	// read the page as a browser does: only what the HTML tokenizer takes for the content of a script element counts
	// (a "</script" inside a string literal ends the element)
	z := html.NewTokenizer(strings.NewReader(page))
	script, inScript := "", false
	for {
		tt := z.Next()
		if tt == html.ErrorToken {
			break
		}
		switch tt {
		case html.StartTagToken:
			name, _ := z.TagName()
			inScript = string(name) == "script"
		case html.EndTagToken:
			inScript = false
		case html.TextToken:
			if txt := string(z.Text()); inScript && strings.Contains(txt, "var opts = ") {
				script = txt
			}
		}
	}
	if script == "" {
		return nil, nil, fmt.Errorf("no script element with the plot's options and data")
	}
	page = script
	oi := strings.Index(page, "var opts = ")
	di := strings.Index(page, "var data = ")
	if oi < 0 || di < 0 {
		return nil, nil, fmt.Errorf("no opts/data in page")
	}
	optsText := page[oi+len("var opts = ") : di]
	optsText = optsText[:strings.LastIndex(optsText, ";")]
	var opts struct {
		Labels []string `json:"labels"`
	}
	if err := json.Unmarshal([]byte(optsText), &opts); err != nil {
		return nil, nil, err
	}
	rest := page[di+len("var data = "):]
	end := strings.Index(rest, ";\n")
	if end < 0 {
		return nil, nil, fmt.Errorf("unterminated data")
	}
	body := strings.ReplaceAll(rest[:end], "NaN", "null")
	var raw [][]*float64
	if err := json.Unmarshal([]byte(body), &raw); err != nil {
		return nil, nil, err
	}
	data := make([][]float64, len(raw))
	for i, rw := range raw {
		data[i] = make([]float64, len(rw))
		for j, v := range rw {
			if v == nil {
				data[i][j] = math.NaN()
			} else {
				data[i][j] = *v
			}
		}
	}
	return data, opts.Labels, nil
}

func TestDrv_C17(t *testing.T) {
	dir := outDir(t)
	tr := NewTracer(filepath.Join(dir, "c17.ndjson"))
	defer tr.Close()
	r := newRand(17)
	// (G) every (count, threshold) pair up to 64 (the model's range), random pairs beyond
	pairs := 0
	tr.Emit("Reset", KV{"kind": "lttb"})
	for count := 0; count <= 64; count++ {
		for threshold := 0; threshold <= count+2; threshold++ {
			downsampleCase(tr, r, count, threshold)
			pairs++
		}
	}
	nr := 300
	if thorough() {
		nr = 6000
	}
	for i := 0; i < nr; i++ {
		count := 65 + r.Intn(5000)
		downsampleCase(tr, r, count, []int{0, 1, 2, 3, 4, count - 1, count, count + 5, 3 + r.Intn(count), 3 + r.Intn(100)}[r.Intn(10)])
		pairs++
	}
	// plots
	plots := 40
	if thorough() {
		plots = 600
	}
	var samples []any
	var ops []map[string]any
	type htmlJob struct {
		reset KV
		out   string
	}
	var hjobs []htmlJob
	// where the clocks of the attacks stand: the present, the zero time.Time (a first request at exactly that instant), the
	// Unix epoch, before it
	bases := []time.Time{time.Unix(1700000000, 0), time.Unix(1700000000, 0), {}, time.Unix(0, 0).UTC(), time.Unix(-2000000000, 0)}
	for p := 0; p < plots; p++ {
		base := bases[p%len(bases)]
		na := 1 + r.Intn(3)
		names := []string{"", "a", "50qps", "attack: B"}
		if p%3 == 1 { // names of which one is the beginning of another
			names = []string{"load", "loadBalanced", "GET", "GETALL", "", "Canary", "load;x", "load@2", "a</script><b>x", "<!-- c & \"d\""}
		}
		if p%8 == 5 { // many attacks in one plot
			na = 10 + r.Intn(10)
			for i := 0; i < 20; i++ {
				names = append(names, fmt.Sprintf("run-%02d", i))
			}
		}
		atks := make([]plotAtk, na)
		r.Shuffle(len(names), func(i, j int) { names[i], names[j] = names[j], names[i] })
		force := func(at int, name string) {
			for i := range names {
				if names[i] == name {
					names[i] = names[at] // (keep the names distinct)
				}
			}
			names[at] = name
		}
		switch p % 6 {
		case 1: // a name that a careless page would let close its script element
			force(0, []string{"a</script><b>x", "x<!--<script>"}[(p/6)%2])
		case 4: // two attacks of which one's name is the beginning of the other's
			if na < 2 {
				na, atks = 2, make([]plotAtk, 2)
			}
			pair := [][2]string{{"load", "loadBalanced"}, {"", "Canary"}, {"GET", "GETALL"}, {"load", "load;x"}}[(p/6)%4]
			for len(names) < 2 {
				names = append(names, "z")
			}
			force(0, pair[0])
			force(1, pair[1])
		}
		down := p%4 == 3 // a plot with downsampling: strictly increasing instants, no ties
		n := []int{1, 2, 3, 7, 40, 300}[r.Intn(6)]
		if p%10 == 0 {
			n = 5000
		}
		if down && n < 7 {
			n = []int{40, 300, 7}[(p/4)%3] // a series worth downsampling
		}
		var all []vegeta.Result
		for a := range atks {
			atks[a].Name = names[a]
			ms, sub := r.Intn(1000), r.Intn(1000000)
			if a == 0 && p%len(bases) >= 2 {
				ms, sub = 0, 0 // the first request of the first attack at the base instant itself
			}
			errRate := []float64{0, 0.1, 0.5, 1}[r.Intn(4)]
			for s := 0; s < n; s++ {
				if s > 0 {
					switch g := r.Intn(6); {
					case down:
						ms += 1 + r.Intn(20)
					case g == 0: // same instant
					case g == 1: // within the same millisecond or the next
						sub += r.Intn(600000)
						if sub >= 1000000 {
							sub -= 1000000
							ms++
						}
					case g == 2:
						ms++
					case g == 3:
						ms += r.Intn(3000)
					default:
						ms += r.Intn(30)
						if p%7 == 0 {
							ms += r.Intn(120000) // minutes
						}
					}
				}
				lat := time.Duration(r.Int63n(int64(time.Minute)))
				if r.Intn(4) == 0 {
					lat = time.Duration(r.Intn(5000)) * time.Microsecond
				}
				pr := plotRes{Seq: s, Ms: ms, Sub: sub, Err: r.Float64() < errRate, Y: Big(uint64(lat)), lat: lat}
				atks[a].Results = append(atks[a].Results, pr)
				e := ""
				if pr.Err {
					e = "boom"
				}
				all = append(all, vegeta.Result{Attack: names[a], Seq: uint64(s), Code: 200, Error: e, Latency: lat,
					Timestamp: base.Add(time.Duration(ms)*time.Millisecond + time.Duration(sub))})
			}
		}
		threshold := 0
		if down {
			// in turn (not by chance): thresholds just below the series length first (buckets of one and two points), then the rest
			choices := []int{3 * n / 4, n - 1, 2 * n / 3, 10, n / 2, 3, n, 4, 1, 2, n + 10}
			threshold = choices[(p/4+int(seed()))%len(choices)]
		} else if r.Intn(3) == 0 {
			threshold = 4000 + n // at or above every series length: unchanged
		}
		// arrival orders: completion-like (local disorder), reversed, random
		orders := [][]int{r.Perm(len(all)), nil, nil}
		orders[1] = make([]int, len(all))
		orders[2] = make([]int, len(all))
		for i := range all {
			orders[1][i] = len(all) - 1 - i
			orders[2][i] = i
		}
		for i := 0; i+1 < len(all); i++ {
			if j := i + 1 + r.Intn(4); j < len(all) && r.Intn(2) == 0 {
				orders[2][i], orders[2][j] = orders[2][j], orders[2][i]
			}
		}
		for oi, ord := range orders {
			if n == 5000 && oi == 1 {
				continue
			}
			reset := KV{"kind": "plot", "threshold": threshold, "attacks": atks, "order": oi}
			tr.Emit("Reset", reset)
			pl := plot.New(plot.Downsample(threshold))
			var addErr, err error
			var data [][]float64
			var labels []string
			func() {
				defer func() {
					if p := recover(); p != nil {
						addErr = fmt.Errorf("panic: %v", p)
					}
				}()
				var slot vegeta.Result
				for k, i := range ord {
					res := &all[i]
					if oi%2 == 1 { // the decode loop of a caller that keeps one Result variable for every record
						slot = all[i]
						res = &slot
					}
					if addErr = pl.Add(res); addErr != nil {
						return
					}
					// a snapshot rendered while results are still arriving must not change what the final plot shows
					if oi%3 == 2 && (k == len(ord)/3 || k == len(ord)/2) {
						_, _ = pl.WriteTo(io.Discard)
					}
				}
				pl.Close()
				if oi%2 == 0 {
					// a closed plot may be rendered more than once (the page, then its data again): what is kept here is the second
					_, _ = pl.WriteTo(io.Discard)
					_, _, _ = pl.VerifData()
				}
				data, labels, err = pl.VerifData()
			}()
			if addErr != nil {
				tr.Emit("Plot", KV{"via": "data()", "err": "Add: " + addErr.Error(), "labels": []string{}, "rows": []rowT{}})
				continue
			}
			if err != nil {
				tr.Emit("Plot", KV{"via": "data()", "err": err.Error(), "labels": []string{}, "rows": []rowT{}})
			} else {
				tr.Emit("Plot", KV{"via": "data()", "err": "", "labels": labels, "rows": rowsFrom(data, labels)})
			}
			// the plot command over a gob file written in this arrival order
			if oi == 0 && n <= 300 && len(hjobs) < 15 && os.Getenv("VERIF_MAINDRV") != "" {
				in := filepath.Join(dir, fmt.Sprintf("c17in%d.gob", len(hjobs)))
				f, err := os.Create(in)
				must(err)
				enc := vegeta.NewEncoder(f)
				for _, i := range ord {
					must(enc.Encode(&all[i]))
				}
				f.Close()
				out := filepath.Join(dir, fmt.Sprintf("c17out%d.html", len(hjobs)))
				ops = append(ops, map[string]any{"op": "plot", "files": []string{in}, "threshold": threshold, "title": "t", "output": out})
				hjobs = append(hjobs, htmlJob{reset, out})
			}
		}
		if len(samples) < 2 && n <= 3 {
			samples = append(samples, KV{"attacks": atks, "threshold": threshold})
		}
	}
	if len(ops) > 0 {
		res, err := runMain(dir, ops)
		if err != nil {
			t.Fatal(err)
		}
		for i, j := range hjobs {
			tr.Emit("Reset", j.reset)
			e, _ := res[i]["err"].(string)
			if p, _ := res[i]["panic"].(string); p != "" {
				e = "panic: " + p
			}
			if e != "" {
				tr.Emit("Plot", KV{"via": "plot command", "err": e, "labels": []string{}, "rows": []rowT{}})
				continue
			}
			page, err := os.ReadFile(j.out)
			must(err)
			data, labels, err := parseHTML(string(page))
			if err != nil {
				tr.Emit("Plot", KV{"via": "plot command", "err": "unreadable page: " + err.Error(), "labels": []string{}, "rows": []rowT{}})
				continue
			}
			tr.Emit("Plot", KV{"via": "plot command", "err": "", "labels": labels, "rows": rowsFrom(data, labels)})
		}
	}
	writeJSON(filepath.Join(dir, "c17.summary.json"), KV{"downsample_pairs": pairs, "plots": plots, "html_pages": len(hjobs), "events": tr.N, "samples": samples})
	_ = sort.Ints
	_ = strconv.Itoa
}
