package vh

// Real-time attack driver (C04): the same Pace / Targeter events as the bubble driver, recorded under the real
// scheduler and the real runtime timers (run once with the toolchain's timer semantics and once with
// GODEBUG=asynctimerchan=1, the semantics a binary built from the repository's go.mod gets).  Only lower bounds on
// time are asserted: the pacer sees the attack's own clock, the targeter's instant is taken from a clock started
// before Attack was called, so it can only be later - a late wake-up never raises an alarm.

import (
	"bytes"
	"io"
	"math"
	"net/http"
	"path/filepath"
	"sync"
	"sync/atomic"
	"testing"
	"time"

	vegeta "github.com/tsenart/vegeta/v12/lib"
)

type rtPacer struct {
	tr    *Tracer
	inner func(call int, elapsed time.Duration, hits uint64) (time.Duration, bool)
	mu    sync.Mutex
	calls int
}

func (p *rtPacer) Pace(elapsed time.Duration, hits uint64) (time.Duration, bool) {
	p.mu.Lock()
	p.calls++
	k := p.calls
	p.mu.Unlock()
	wait, stop := p.inner(k, elapsed, hits)
	logged := wait.Microseconds()
	if logged > 2e9 {
		logged = 2e9 // TLC's integers: a wait beyond 33 minutes is logged as 33 minutes (no run lasts that long)
	}
	p.tr.Emit("Pace", KV{"t": elapsed.Microseconds(), "elapsed": elapsed.Microseconds(), "hits": hits, "wait": logged, "stop": stop})
	return wait, stop
}
func (p *rtPacer) Rate(time.Duration) float64 { return math.Inf(1) } // whatever it claims here, Pace is what the loop obeys

func TestDrv_AttackRT(t *testing.T) {
	dir := outDir(t)
	tr := NewTracer(filepath.Join(dir, "attackrt.ndjson"))
	defer tr.Close()
	ms := time.Millisecond
	type rtCase struct {
		name      string
		waits     []time.Duration // scripted pacer; nil = constant pacer
		freq      int
		hits      int
		maxw      uint64
		slowFirst time.Duration // latency of the first response
		du        time.Duration // duration of the attack, 0 = none
		workers   uint64        // initial workers, 0 = 2
	}
	cases := []rtCase{
		{"zero-then-positive", []time.Duration{0, 20 * ms, 0, 20 * ms, 0, 20 * ms}, 0, 6, 0, 0, 0, 0},
		{"two-zeros-then-positive", []time.Duration{0, 0, 15 * ms, 0, 0, 15 * ms}, 0, 6, 0, 0, 0, 0},
		{"negative-then-positive", []time.Duration{-5 * ms, 25 * ms, -1, 10 * ms}, 0, 4, 0, 0, 0, 0},
		{"positive-only", []time.Duration{5 * ms, 10 * ms, 5 * ms}, 0, 3, 0, 0, 0, 0},
		{"constant-pacer-catching-up", nil, 20, 8, 1, 180 * ms, 0, 0}, // falls behind during the slow first response: zero waits, then positive ones
		{"constant-pacer-steady", nil, 100, 15, 0, 0, 0, 0},
		{"waits-of-microseconds", []time.Duration{20 * time.Microsecond, 45 * time.Microsecond, 10 * time.Microsecond, 30 * time.Microsecond}, 0, 200, 0, 0, 0, 0},
		// a burst, then "idle for ever": the largest wait there is, asked for when some time has already elapsed
		{"burst-then-idle-forever", []time.Duration{0, 0, 2 * ms, math.MaxInt64, math.MaxInt64, math.MaxInt64, math.MaxInt64}, 0, 1 << 30, 0, 0, 0, 0},
		// durations shorter than the time it takes to get going: the pacer is not asked once the duration is over, not even the first time
		{"duration-1ns", []time.Duration{0, ms}, 0, 1000, 0, 0, 1, 0},
		{"duration-1us", []time.Duration{0, ms}, 0, 1000, 0, 0, time.Microsecond, 0},
		{"duration-300us-many-workers", []time.Duration{0, ms}, 0, 1000, 0, 0, 300 * time.Microsecond, 50000},
		{"duration-5ms", []time.Duration{ms, 0, ms}, 0, 1000, 0, 0, 5 * ms, 0},
		{"burst-then-idle-almost-forever", []time.Duration{0, 3 * ms, math.MaxInt64 - time.Duration(ms), math.MaxInt64 - 1, math.MaxInt64 - 1}, 0, 1 << 30, 0, 0, 0, 0},
	}
	rounds := 2
	if thorough() {
		rounds = 10
	}
	runs := 0
	for round := 0; round < rounds; round++ {
		for _, c := range cases {
			c := c
			runs++
			tr.Emit("Reset", KV{"id": runs, "workers": 2, "maxw": map[bool]int{true: int(c.maxw), false: -1}[c.maxw > 0], "du": (c.du + 999) / 1000, "name": "rt", "script": "rt:" + c.name})
			var first sync.Once
			rt := roundTripFunc(func(req *http.Request) (*http.Response, error) {
				first.Do(func() { time.Sleep(c.slowFirst) })
				return &http.Response{Status: "200 OK", StatusCode: 200, Proto: "HTTP/1.1", ProtoMajor: 1, ProtoMinor: 1, Header: http.Header{},
					Body: io.NopCloser(bytes.NewReader(nil)), Request: req}, nil
			})
			opts := []func(*vegeta.Attacker){vegeta.Client(&http.Client{Transport: rt}), vegeta.Workers(max(2, c.workers))}
			if c.maxw > 0 {
				opts = append(opts, vegeta.MaxWorkers(c.maxw))
			}
			atk := vegeta.NewAttacker(opts...)
			cp := vegeta.ConstantPacer{Freq: c.freq, Per: time.Second}
			var abandoned atomic.Bool
			pacer := &rtPacer{tr: tr, inner: func(call int, elapsed time.Duration, hits uint64) (time.Duration, bool) {
				if int(hits) >= c.hits || abandoned.Load() {
					return 0, true
				}
				if c.waits != nil {
					return c.waits[(call-1)%len(c.waits)], false
				}
				return cp.Pace(elapsed, hits)
			}}
			start := time.Now()
			k := 0
			targeter := vegeta.Targeter(func(tgt *vegeta.Target) error {
				tr.Locked(func() {
					k++
					tr.EmitLocked("Targeter", KV{"t": time.Since(start).Microseconds(), "k": k, "err": false})
				})
				tgt.Method, tgt.URL = "GET", "http://verif.invalid/"
				return nil
			})
			if c.hits == 1<<30 {
				// this attack sleeps for ever after its burst: it is watched for a while and then left behind (the process ends)
				go func() {
					for range atk.Attack(targeter, pacer, 0, "rt") {
					}
				}()
				time.Sleep(40 * ms)
				abandoned.Store(true)             // should the loop ever consult the pacer again, it is told to stop
				tr.Locked(func() { k = 1 << 20 }) // a later call of the abandoned attack would be logged with an impossible number
				continue
			}
			for range atk.Attack(targeter, pacer, c.du, "rt") {
			}
		}
	}
	writeJSON(filepath.Join(dir, "attackrt.summary.json"), KV{"runs": runs})
}

type roundTripFunc func(*http.Request) (*http.Response, error)

func (f roundTripFunc) RoundTrip(r *http.Request) (*http.Response, error) { return f(r) }
