module verifharness

go 1.26

require (
	github.com/tsenart/vegeta/v12 v12.0.0
	pgregory.net/rapid v1.3.0
)

replace github.com/tsenart/vegeta/v12 => /repo
