package vh

// Attack engine driver (C02, C03, C04): runs the real, unmodified
// vegeta.Attacker.Attack inside testing/synctest bubbles under "timed scripts"
// and logs the observable events of spec/attack/AttackContract.tla.
//
// All times are virtual microseconds since the start of the bubble; every
// scripted delay is a whole number of milliseconds, so every instant at which
// something can happen is on the millisecond grid unless the code under test
// computes a different sleep.  A monitor goroutine calls synctest.Wait() once
// per instant and logs Quiesce{t}: everything that could happen at t has
// happened and has been logged (Appendix A of DESIGN.md).

import (
	"bytes"
	"encoding/json"
	"errors"
	"io"
	"math"
	"net/http"
	"regexp"
	"runtime"
	"strconv"
	"sync"
	"sync/atomic"
	"testing"
	"testing/synctest"
	"time"

	vegeta "github.com/tsenart/vegeta/v12/lib"
)

type StopAt struct {
	At int `json:"at"` // virtual ms
	N  int `json:"n"`  // concurrent callers at that instant
}

type Script struct {
	ID         int      `json:"id"`
	Workers    int      `json:"workers"`
	MaxWorkers int      `json:"maxw"`      // -1: option not given (unlimited)
	Du         int      `json:"du"`        // ms, 0 = until stopped
	Waits      []int    `json:"waits"`     // pacer wait in ms per call, last one repeats
	StopCall   int      `json:"stop_call"` // pacer answers stop at this call (1-based), 0 = never
	Lat        []int    `json:"lat"`       // transport latency in ms per sequence number, last repeats
	Cons       []int    `json:"cons"`      // consumer delay in ms before each receive, last repeats
	Stops      []StopAt `json:"stops"`
	FailCall   int      `json:"fail_call"` // targeter fails at this call (1-based), 0 = never
	Name       string   `json:"name"`
	MaxHits    int      `json:"max_hits"`              // pacer answers stop once this many hits were released (safety net for unlimited scripts), 0 = none
	TimeoutMs  int      `json:"timeout_ms,omitempty"`  // request timeout of the client, 0 = none
	WaitUs     int      `json:"wait_us,omitempty"`     // unit of Waits in microseconds (0 = 1000: milliseconds)
	PaceLatUs  int      `json:"pace_lat_us,omitempty"` // the pacer itself takes this long to answer (0 = no time at all)
	TailMs     int      `json:"tail_ms,omitempty"`     // responses of 8 bytes whose second half arrives this much later; the attacker keeps 2 bytes (max-body)
	StepMs     int      `json:"step_ms,omitempty"`     // the monitor looks at the run every StepMs instants (0 = 1: every instant)
}

func pick(xs []int, i int, def int) int {
	if len(xs) == 0 {
		return def
	}
	if i >= len(xs) {
		return xs[len(xs)-1]
	}
	return xs[i]
}

// abnormalEnds counts the scripted runs that did not end by themselves (Horizon, Runaway, a bubble left with blocked
// goroutines).  Each of them is a rejected trace; once there are dozens the verdict is beyond doubt and the remaining scripts
// are skipped, so that a defect which makes attacks hang does not make the driver take for ever.
var abnormalEnds atomic.Int64

type scriptPacer struct {
	tr    *Tracer
	sc    *Script
	now   func() int64
	calls int
	cap   int // consultations a correct attack loop cannot reach in this script
}

func (p *scriptPacer) Pace(elapsed time.Duration, hits uint64) (time.Duration, bool) {
	var wait time.Duration
	var stop bool
	var lat time.Duration
	p.tr.Locked(func() {
		p.calls++
		k := p.calls
		if k == p.cap {
			// virtual time is not advancing: the loop consults the pacer without ever sleeping
			abnormalEnds.Add(1)
			p.tr.EmitLocked("Runaway", KV{"t": p.now(), "calls": k})
		}
		if k >= p.cap {
			stop = true
			return
		}
		stop = (p.sc.StopCall > 0 && k >= p.sc.StopCall) || (p.sc.MaxHits > 0 && int(hits) >= p.sc.MaxHits)
		if !stop {
			unit := time.Millisecond
			if p.sc.WaitUs > 0 {
				unit = time.Duration(p.sc.WaitUs) * time.Microsecond
			}
			wait = time.Duration(pick(p.sc.Waits, k-1, 0)) * unit
		}
		ev := KV{"t": p.now(), "elapsed": elapsed.Microseconds(), "elapsed_ns_rem": int64(elapsed % time.Microsecond),
			"hits": hits, "wait": wait.Microseconds(), "stop": stop}
		if p.sc.PaceLatUs > 0 && !stop {
			// a pacer that takes its time to answer: the wait it returns counts from the moment it returns it ("rt", which in
			// virtual time is known beforehand)
			lat = time.Duration(p.sc.PaceLatUs) * time.Microsecond
			ev["rt"] = p.now() + int64(p.sc.PaceLatUs)
		}
		p.tr.EmitLocked("Pace", ev)
	})
	time.Sleep(lat)
	return wait, stop
}

// Rate: the loop is to follow Pace, whatever the pacer says its rate is (an adversarial pacer: nothing, or a huge rate)
func (p *scriptPacer) Rate(time.Duration) float64 {
	if p.sc.ID%2 == 0 {
		return math.Inf(1)
	}
	return []float64{0, 1e9}[p.sc.ID%4/2]
}

type scriptRT struct {
	tr  *Tracer
	sc  *Script
	now func() int64
}

func (rt *scriptRT) RoundTrip(req *http.Request) (*http.Response, error) {
	if req.URL.Host == "twin.invalid" { // the unobserved second attack of the same Attacker
		return &http.Response{Status: "200 OK", StatusCode: 200, Proto: "HTTP/1.1", ProtoMajor: 1, ProtoMinor: 1,
			Header: http.Header{}, Body: io.NopCloser(bytes.NewReader(nil)), Request: req}, nil
	}
	seq, err := strconv.Atoi(req.Header.Get("X-Vegeta-Seq"))
	if err != nil {
		seq = -1
	}
	rt.tr.Emit("Enter", KV{"t": rt.now(), "seq": seq, "name": req.Header.Get("X-Vegeta-Attack")})
	if d := pick(rt.sc.Lat, seq, 0); d > 0 {
		time.Sleep(time.Duration(d) * time.Millisecond)
	}
	rt.tr.Emit("Exit", KV{"t": rt.now(), "seq": seq})
	var body io.ReadCloser = io.NopCloser(bytes.NewReader(nil))
	if rt.sc.TailMs > 0 {
		body = &lateTail{wait: time.Duration(rt.sc.TailMs) * time.Millisecond}
	}
	return &http.Response{
		Status: "200 OK", StatusCode: 200, Proto: "HTTP/1.1", ProtoMajor: 1, ProtoMinor: 1,
		Header: http.Header{}, Body: body, Request: req,
	}, nil
}

// lateTail is a response body of eight bytes whose second half arrives late (the server flushed the head and took its time).
type lateTail struct {
	wait time.Duration
	pos  int
}

func (b *lateTail) Read(p []byte) (int, error) {
	switch {
	case b.pos >= 8:
		return 0, io.EOF
	case b.pos == 4:
		time.Sleep(b.wait)
	}
	n := copy(p, "headtail"[b.pos:min(8, b.pos/4*4+4)])
	b.pos += n
	return n, nil
}
func (b *lateTail) Close() error { return nil }

var bubbleRe = regexp.MustCompile(`synctest bubble (\d+)`)

// bubbleGoroutines counts the goroutines that belong to the caller's bubble
// (goroutine headers carry "synctest bubble N").
func bubbleGoroutines() int {
	self := make([]byte, 4096)
	self = self[:runtime.Stack(self, false)]
	if i := bytes.IndexByte(self, '\n'); i >= 0 {
		self = self[:i]
	}
	m := bubbleRe.FindSubmatch(self)
	if m == nil {
		return -1
	}
	buf := make([]byte, 1<<20)
	for {
		n := runtime.Stack(buf, true)
		if n < len(buf) {
			buf = buf[:n]
			break
		}
		buf = make([]byte, 2*len(buf))
	}
	n := 0
	for _, mm := range bubbleRe.FindAllSubmatch(buf, -1) {
		if bytes.Equal(mm[1], m[1]) {
			n++
		}
	}
	return n
}

const horizonSlack = 120 // instants beyond the script's last scheduled event

// scriptHorizon is the number of instants after which a script's run must be over.
func scriptHorizon(sc *Script) int {
	last := sc.Du
	for _, st := range sc.Stops {
		if st.At > last {
			last = st.At
		}
	}
	sum := 0
	for _, w := range sc.Waits {
		sum += w
	}
	for _, l := range sc.Lat {
		sum += l
	}
	for _, c := range sc.Cons {
		sum += c
	}
	// After a stop the loop may still win the tick branch of its select against the
	// stop branch (Go picks at random among ready cases), each time with probability
	// 1/2 at most: 60 further rounds of the repeating tail make a false horizon
	// less likely than 1e-18.
	tail := pick(sc.Waits, len(sc.Waits), 0) + pick(sc.Lat, len(sc.Lat), 0) + pick(sc.Cons, len(sc.Cons), 0) + 1
	plat := (sc.PaceLatUs + 999) / 1000 // every answer of a slow pacer takes this long
	tail += plat + sc.TailMs
	sum += sc.TailMs * (len(sc.Waits) + 4)
	h := last + sum + horizonSlack + 60*tail + plat*max(len(sc.Waits), sc.StopCall)
	if sc.MaxHits > 0 {
		h += sc.MaxHits * tail
	}
	return h
}

// paceCap bounds the consultations of the pacer in one script: a loop that sleeps as told
// consults at most once per zero wait of the list and once per instant afterwards.
func paceCap(sc *Script) int {
	c := len(sc.Waits) + scriptHorizon(sc) + 10
	if sc.MaxHits > 0 {
		c += sc.MaxHits
	}
	return c
}

// runScript executes one timed script in a bubble and appends its events.
func runScript(t *testing.T, tr *Tracer, sc *Script) {
	defer func() {
		// the bubble panics ("deadlock: all goroutines in bubble are blocked") when
		// the attack left goroutines behind; that is a trace fact, not a crash
		if r := recover(); r != nil {
			abnormalEnds.Add(1)
			tr.Emit("BubblePanic", KV{"id": sc.ID, "value": trunc(toStr(r), 300)})
		}
	}()
	synctest.Test(t, func(t *testing.T) {
		start := time.Now()
		now := func() int64 { return time.Since(start).Microseconds() }
		base := bubbleGoroutines()

		opts := []func(*vegeta.Attacker){
			vegeta.Client(&http.Client{Transport: &scriptRT{tr, sc, now}, Timeout: time.Duration(sc.TimeoutMs) * time.Millisecond}),
			vegeta.Workers(uint64(sc.Workers)),
		}
		if sc.MaxWorkers >= 0 {
			opts = append(opts, vegeta.MaxWorkers(uint64(sc.MaxWorkers)))
		}
		if sc.TailMs > 0 {
			opts = append(opts, vegeta.MaxBody(2))
		}
		if sc.ID%5 == 3 {
			// an option that starts a helper goroutine of its own (the hourly refresh of the DNS cache, set up on the default
			// transport before the scripted client takes its place): it is gone with the attack like every other goroutine
			opts = append([]func(*vegeta.Attacker){vegeta.DNSCaching(time.Hour)}, opts...)
		}
		atk := vegeta.NewAttacker(opts...)

		targCalls := 0
		targeter := vegeta.Targeter(func(tgt *vegeta.Target) error {
			var fail bool
			tr.Locked(func() {
				targCalls++
				fail = sc.FailCall > 0 && targCalls >= sc.FailCall
				tr.EmitLocked("Targeter", KV{"t": now(), "k": targCalls, "err": fail})
			})
			if fail {
				return errors.New("scripted targeter failure")
			}
			tgt.Method, tgt.URL = "GET", "http://verif.invalid/"
			if sc.ID%3 == 0 {
				tgt.Method = "" // net/http reads an empty method as GET
			}
			return nil
		})

		scJSON, _ := json.Marshal(sc)
		twin := sc.ID%4 == 1
		tr.Emit("Reset", KV{"id": sc.ID, "workers": sc.Workers, "maxw": sc.MaxWorkers, "du": int64(sc.Du) * 1000, "name": sc.Name, "script": string(scJSON), "twin": twin})
		var wg sync.WaitGroup
		if twin {
			// a second attack runs on the same Attacker all the while (one hit per millisecond against another host, its own
			// pacer, targeter and consumer, none of them observed); it ends when the Attacker is stopped.  Whatever it does,
			// the observed attack keeps its own sequence numbers, workers and results.
			// (every other time it begins three instants into the observed attack instead of before it)
			late := time.Duration(sc.ID%8/4*3) * time.Millisecond
			wg.Add(1)
			go func() {
				defer wg.Done()
				time.Sleep(late)
				other := atk.Attack(vegeta.NewStaticTargeter(vegeta.Target{Method: "GET", URL: "http://twin.invalid/"}),
					twinPacer{}, 0, "twin")
				for range other {
				}
			}()
			if late == 0 {
				synctest.Wait() // the second attack is under way
			}
		}
		results := atk.Attack(targeter, &scriptPacer{tr: tr, sc: sc, now: now, cap: paceCap(sc)}, time.Duration(sc.Du)*time.Millisecond, sc.Name)

		consumerDone := make(chan struct{})
		var received atomic.Int64 // results the consumer has taken so far
		wg.Add(1)
		go func() { // the consumer
			defer wg.Done()
			defer close(consumerDone)
			for i := 0; ; i++ {
				if d := pick(sc.Cons, i, 0); d > 0 {
					time.Sleep(time.Duration(d) * time.Millisecond)
				}
				tr.Emit("Try", KV{"t": now()})
				r, ok := <-results
				if !ok {
					tr.Emit("Closed", KV{"t": now()})
					return
				}
				received.Add(1)
				tr.Emit("Recv", KV{"t": now(), "seq": r.Seq, "ts": r.Timestamp.Sub(start).Microseconds(),
					"latency": r.Latency.Microseconds(), "err": r.Error != "", "name": r.Attack, "code": r.Code})
			}
		}()

		id := 0
		for _, st := range sc.Stops {
			for c := 0; c < st.N; c++ {
				id++
				wg.Add(1)
				go func(id, at int) {
					defer wg.Done()
					time.Sleep(time.Duration(at) * time.Millisecond)
					tr.Emit("StopCall", KV{"t": now(), "id": id})
					ret := atk.Stop()
					tr.Emit("StopRet", KV{"t": now(), "id": id, "ret": ret})
				}(id, st.At)
			}
		}
		horizon := scriptHorizon(sc)

		// the monitor: one Quiesce per instant.  The horizon is a bound on the instants a run needs when no backlog builds up;
		// with zero waits and an unlimited pool the loop may release any number of hits in one instant before a stop is noticed
		// (the goroutines of a bubble run in parallel), and a slow consumer then needs its time for each: as long as results
		// keep being taken the run is making progress, and only a run that stands still beyond the horizon has failed to end
		lastTaken, lastProgress := int64(0), 0
		for inst := 0; ; inst++ {
			synctest.Wait()
			tr.Emit("Quiesce", KV{"t": now()})
			select {
			case <-consumerDone:
			default:
				step := max(1, sc.StepMs)
				if n := received.Load(); n != lastTaken {
					lastTaken, lastProgress = n, inst
				}
				if inst*step < horizon || (inst-lastProgress)*step < horizonSlack {
					time.Sleep(time.Duration(step) * time.Millisecond)
					continue
				}
				// the attack had every reason to end and did not: unblock it so the bubble can be left
				abnormalEnds.Add(1)
				tr.Emit("Horizon", KV{"t": now()})
				atk.Stop()
				go func() {
					for range results {
					}
				}()
			}
			break
		}
		wg.Wait()
		synctest.Wait()
		tr.Emit("End", KV{"t": now(), "leaked": bubbleGoroutines() - base})
	})
}

func toStr(v any) string {
	switch x := v.(type) {
	case string:
		return x
	case error:
		return x.Error()
	default:
		return "panic"
	}
}

func trunc(s string, n int) string {
	if len(s) > n {
		return s[:n]
	}
	return s
}

// twinPacer releases one hit per millisecond for as long as the Attacker runs.
type twinPacer struct{}

func (twinPacer) Pace(time.Duration, uint64) (time.Duration, bool) { return time.Millisecond, false }
func (twinPacer) Rate(time.Duration) float64                       { return 1000 }
