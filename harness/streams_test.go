package vh

// Result-stream drivers (C07, C08, C09, C13): spec/stream/StreamsTrace.tla decides.

import (
	"bufio"
	"bytes"
	"crypto/sha256"
	"encoding/base64"
	"encoding/json"
	"fmt"
	"io"
	"math/rand"
	"net/http"
	"os"
	"path/filepath"
	"reflect"
	"sort"
	"strconv"
	"strings"
	"sync"
	"testing"
	"testing/iotest"
	"time"

	vegeta "github.com/tsenart/vegeta/v12/lib"
)

// ---------------------------------------------------------------- rendering

func bodyCanon(b []byte) string {
	if len(b) <= 32 {
		return fmt.Sprintf("%x", b)
	}
	return fmt.Sprintf("%d:%x", len(b), sha256.Sum256(b))
}

func headerCanon(h http.Header) []string {
	if h == nil {
		return []string{"<nil header map>"} // Result.Equal tells nil from empty, and every codec preserves the difference
	}
	out := []string{}
	for k, vs := range h {
		for i, v := range vs {
			out = append(out, fmt.Sprintf("%s[%d]: %s", k, i, v))
		}
	}
	sort.Strings(out)
	return out
}

// render gives the canonical rendering of a Result, field by field, by reflection.
func render(r *vegeta.Result) map[string]any {
	out := map[string]any{}
	v := reflect.ValueOf(*r)
	for i := 0; i < v.NumField(); i++ {
		name := v.Type().Field(i).Name
		switch x := v.Field(i).Interface().(type) {
		case string:
			out[name] = x
		case time.Time:
			out[name] = strconv.FormatInt(x.UnixNano(), 10)
		case time.Duration:
			out[name] = strconv.FormatInt(int64(x), 10)
		case []byte:
			out[name] = bodyCanon(x)
		case http.Header:
			out[name] = headerCanon(x)
		case uint64:
			out[name] = strconv.FormatUint(x, 10)
		case uint16:
			out[name] = strconv.FormatUint(uint64(x), 10)
		default:
			out[name] = fmt.Sprintf("%v", x)
		}
	}
	return out
}

func sameResult(a, b *vegeta.Result) bool { return reflect.DeepEqual(render(a), render(b)) }

// ---------------------------------------------------------------- generator

var textAlphabet = []string{"a", "Z", "9", " ", ",", "\"", "\n", "'", ";", "é", "漢", "\t", "\\", ":", "#", "=", "{", "}", "[", "]", "/", "&",
	"\\r", "\\n", "\\t", "\\\"", "r", "n", "%", "\u00a0", "\u3000", "\u2028", "<", ">"} // also: the two characters backslash-r etc. as plain text, white space beyond ASCII

func genText(r *rand.Rand, max int) string {
	n := r.Intn(max + 1)
	var sb strings.Builder
	for i := 0; i < n; i++ {
		sb.WriteString(textAlphabet[r.Intn(len(textAlphabet))])
	}
	return sb.String()
}

func genHeaderValue(r *rand.Rand) string {
	// header values cannot carry line breaks, and the MIME layer trims ASCII blanks at the edges - nothing else
	s := strings.Trim(strings.NewReplacer("\n", "", "\t", "", "\u2028", "").Replace(genText(r, 12)), " ")
	return s
}

// genResult draws a Result from the property's representable domain.
func genResult(r *rand.Rand, id int, bodyMax int) vegeta.Result {
	res := vegeta.Result{
		Attack: genText(r, 8), Seq: uint64(id), Code: uint16(r.Intn(1 << 16)),
		Timestamp: time.Unix(int64(r.Intn(7200000000)), int64(r.Intn(1000000000))), // 1970 .. 2198, ns precision
		Latency:   time.Duration(r.Int63()), BytesOut: r.Uint64(), BytesIn: r.Uint64(),
		Error: genText(r, 20), Method: []string{"GET", "POST", "X-" + genText(r, 3)}[r.Intn(3)], URL: "http://h/" + genText(r, 15),
	}
	switch r.Intn(4) { // the same instant may be held in any zone (a result is identified by its instant)
	case 0:
		res.Timestamp = res.Timestamp.In(time.FixedZone("", (r.Intn(27)-12)*3600+[]int{0, 1800, 2700}[r.Intn(3)]))
	case 1:
		res.Timestamp = res.Timestamp.UTC()
	}
	switch r.Intn(8) {
	case 0:
		res.Seq = ^uint64(0)
	case 1:
		res.Latency, res.BytesIn, res.BytesOut, res.Code = 0, 0, 0, 0
	case 2:
		res.Latency = time.Duration(1<<63 - 1)
	case 3: // the full range of the latency type includes negative durations
		res.Latency = -time.Duration(r.Int63n(1e12)) - 1
	case 4:
		res.Latency = time.Duration(-1 << 63)
	}
	switch r.Intn(4) {
	case 0: // nil body
	case 1:
		res.Body = []byte{}
	default:
		n := r.Intn(40)
		if r.Intn(5) == 0 {
			n = r.Intn(bodyMax + 1)
		}
		res.Body = make([]byte, n)
		r.Read(res.Body)
	}
	switch r.Intn(4) {
	case 0: // nil headers
	case 1:
		res.Headers = http.Header{}
	default:
		res.Headers = http.Header{}
		nk := 1 + r.Intn(3)
		if r.Intn(12) == 0 {
			nk = 20 + r.Intn(30) // many header keys
		}
		for k := 0; k < nk; k++ {
			key := http.CanonicalHeaderKey([]string{"content-type", "x-a", "set-cookie", "etag", "x-long-header-name"}[r.Intn(5)])
			if nk > 3 {
				key = fmt.Sprintf("X-H%d", r.Intn(60))
			}
			for v := 0; v < 1+r.Intn(3); v++ {
				res.Headers[key] = append(res.Headers[key], genHeaderValue(r))
			}
		}
	}
	return res
}

type codec struct {
	name string
	enc  func(io.Writer) vegeta.Encoder
	dec  func(io.Reader) vegeta.Decoder
}

var codecs = []codec{
	{"gob", vegeta.NewEncoder, vegeta.NewDecoder},
	{"csv", vegeta.NewCSVEncoder, vegeta.NewCSVDecoder},
	{"json", vegeta.NewJSONEncoder, vegeta.NewJSONDecoder},
}

func codecByName(n string) codec {
	for _, c := range codecs {
		if c.name == n {
			return c
		}
	}
	panic(n)
}

// encodeAll encodes the results one Encode call at a time and returns the bytes and the frame offsets.
func encodeAll(c codec, rs []vegeta.Result) ([]byte, []KV) {
	return encodeAllWithFailure(c, rs, -1)
}

// encodeAllWithFailure also attempts, before record failAt, to encode a result that the JSON codec must refuse (a
// timestamp that RFC 3339 cannot express): the call has to fail without leaving anything in the stream, now or later.
func encodeAllWithFailure(c codec, rs []vegeta.Result, failAt int) ([]byte, []KV) {
	return encodeAllMode(c, rs, failAt, false)
}

// encodeAllMode with reuse=true hands the encoder one Result variable for every record, overwritten in place (the header
// map is cleared and refilled, the body buffer re-used), as a caller that pools its results would.
func encodeAllMode(c codec, rs []vegeta.Result, failAt int, reuse bool) ([]byte, []KV) {
	var buf bytes.Buffer
	enc := c.enc(&buf)
	frames := []KV{}
	if reuse {
		var slot vegeta.Result
		for i := range rs {
			hdr, body := slot.Headers, slot.Body
			slot = rs[i]
			if rs[i].Headers != nil {
				if hdr == nil {
					hdr = http.Header{}
				}
				for k := range hdr {
					delete(hdr, k)
				}
				for k, vs := range rs[i].Headers {
					hdr[k] = append([]string(nil), vs...)
				}
				slot.Headers = hdr
			}
			if rs[i].Body != nil {
				slot.Body = append(body[:0], rs[i].Body...)
			}
			start := buf.Len()
			must(enc.Encode(&slot))
			frames = append(frames, KV{"id": i + 1, "start": start, "end": buf.Len()})
		}
		return buf.Bytes(), frames
	}
	for i := range rs {
		if i == failAt && c.name == "json" {
			bad := rs[i]
			bad.Timestamp = time.Date(10000, 1, 1, 0, 0, 0, 0, time.UTC)
			before := buf.Len()
			if err := enc.Encode(&bad); err == nil || buf.Len() != before {
				frames = append(frames, KV{"id": 0, "start": before, "end": buf.Len() + 1}) // an impossible frame: the case will be rejected
			}
		}
		start := buf.Len()
		if err := enc.Encode(&rs[i]); err != nil {
			if failAt >= 0 {
				break // an encoder may stay failed after a refused result: the stream simply ends here
			}
			must(err)
		}
		frames = append(frames, KV{"id": i + 1, "start": start, "end": buf.Len()})
	}
	return buf.Bytes(), frames
}

// decodeIDs decodes until the decoder stops, matching every result with the originals
// in order: the k-th result gets id k if it equals original k, else 0.
func decodeIDs(dec vegeta.Decoder, rs []vegeta.Result, limit int) (ids []int, tail string) {
	ids = []int{}
	for k := 0; k < limit; k++ {
		var got vegeta.Result
		err := func() (err error) {
			defer func() {
				if p := recover(); p != nil {
					err = fmt.Errorf("panic: %v", p)
				}
			}()
			return dec.Decode(&got)
		}()
		if err == io.EOF {
			return ids, "eof"
		}
		if err != nil {
			if strings.HasPrefix(err.Error(), "panic") {
				return ids, "panic"
			}
			return ids, "err"
		}
		if k < len(rs) && sameResult(&got, &rs[k]) {
			ids = append(ids, k+1)
		} else {
			ids = append(ids, 0)
		}
	}
	return ids, "runaway"
}

// ---------------------------------------------------------------- C07

// splitCSV is a plain RFC 4180 splitter written for this harness (it knows nothing of lib/results.go).
func splitCSV(data string) [][]string {
	var recs [][]string
	var rec []string
	var field strings.Builder
	inq := false
	for i := 0; i < len(data); i++ {
		ch := data[i]
		switch {
		case inq && ch == '"' && i+1 < len(data) && data[i+1] == '"':
			field.WriteByte('"')
			i++
		case inq && ch == '"':
			inq = false
		case inq:
			field.WriteByte(ch)
		case ch == '"':
			inq = true
		case ch == ',':
			rec = append(rec, field.String())
			field.Reset()
		case ch == '\n':
			rec = append(rec, field.String())
			field.Reset()
			recs = append(recs, rec)
			rec = nil
		case ch == '\r' && i+1 < len(data) && data[i+1] == '\n':
		default:
			field.WriteByte(ch)
		}
	}
	return recs
}

// mimeHeaderCanon parses "Key: value\r\n" lines itself.
func mimeHeaderCanon(b []byte) []string {
	h := http.Header{}
	for _, ln := range strings.Split(string(b), "\r\n") {
		if ln == "" {
			continue
		}
		i := strings.Index(ln, ":")
		if i < 0 {
			h["<malformed>"] = append(h["<malformed>"], ln)
			continue
		}
		h[ln[:i]] = append(h[ln[:i]], strings.TrimPrefix(ln[i+1:], " "))
	}
	return headerCanon(h)
}

// csvColumns turns the twelve columns of the documented layout into canonical strings.
func csvColumns(cols []string) []any {
	out := make([]any, len(cols))
	for i, c := range cols {
		out[i] = c
	}
	if len(cols) == 12 {
		if b, err := base64.StdEncoding.DecodeString(cols[6]); err == nil {
			out[6] = bodyCanon(b)
		}
		if cols[11] == "" {
			out[11] = headerCanon(nil) // documented layout: no header block at all
		} else if b, err := base64.StdEncoding.DecodeString(cols[11]); err == nil {
			out[11] = mimeHeaderCanon(b)
		}
	}
	return out
}

// jsonObject reads one documented JSON object into canonical strings by name.
func jsonObject(line []byte) (map[string]any, error) {
	var raw map[string]json.RawMessage
	if err := json.Unmarshal(line, &raw); err != nil {
		return nil, err
	}
	out := map[string]any{}
	for k, v := range raw {
		switch k {
		case "timestamp":
			var s string
			if err := json.Unmarshal(v, &s); err != nil {
				return nil, err
			}
			ts, err := time.Parse(time.RFC3339Nano, s)
			if err != nil {
				return nil, err
			}
			out[k] = strconv.FormatInt(ts.UnixNano(), 10)
		case "body":
			var s *string
			if err := json.Unmarshal(v, &s); err != nil {
				return nil, err
			}
			var b []byte
			if s != nil {
				var err error
				if b, err = base64.StdEncoding.DecodeString(*s); err != nil {
					return nil, err
				}
			}
			out[k] = bodyCanon(b)
		case "headers":
			var h http.Header
			if err := json.Unmarshal(v, &h); err != nil {
				return nil, err
			}
			out[k] = headerCanon(h)
		case "attack", "error", "method", "url":
			var s string
			if err := json.Unmarshal(v, &s); err != nil {
				return nil, err
			}
			out[k] = s
		default: // numbers, kept as written
			out[k] = strings.TrimSpace(string(v))
		}
	}
	return out, nil
}

func TestDrv_C07(t *testing.T) {
	dir := outDir(t)
	tr := NewTracer(filepath.Join(dir, "c07.ndjson"))
	defer tr.Close()
	r := newRand(7)
	streams := 300
	if thorough() {
		streams = 6000
	}
	records := 0
	var samples []any
	for s := 0; s < streams; s++ {
		n := 1 + r.Intn(50)
		if !thorough() {
			n = 1 + r.Intn(20)
		}
		rs := make([]vegeta.Result, n)
		for i := range rs {
			rs[i] = genResult(r, i, 70000)
		}
		if s%60 == 7 {
			// response headers of more than a MiB in one result (twenty fields of 64 KiB: the client accepts up to 10 MiB)
			rs[n/2].Headers = http.Header{}
			for k := 0; k < 20; k++ {
				rs[n/2].Headers[fmt.Sprintf("X-Big-%02d", k)] = []string{strings.Repeat(string(rune('a'+k)), 65536)}
			}
		}
		if s%4 == 2 && n >= 3 {
			// attacks that began at the same local time in different zones, merged into one stream: the same wall-clock reading
			// in consecutive records, at offsets an hour (or 45 minutes) apart - different instants
			y, mo, d := rs[0].Timestamp.UTC().Date()
			h, mi, sec := rs[0].Timestamp.UTC().Clock()
			for i, off := range []int{0, 3600, 7200, -3600, 2700, 0}[:min(n, 6)] {
				rs[i].Timestamp = time.Date(y, mo, d, h, mi, sec, r.Intn(1000000000), time.FixedZone("", off))
			}
		}
		for _, c := range codecs {
			tr.Emit("Reset", KV{"kind": "c07", "codec": c.name})
			for i := range rs {
				tr.Emit("Encode", KV{"id": i + 1, "r": render(&rs[i])})
			}
			data, frames := encodeAllMode(c, rs, -1, s%2 == 1)
			records += n
			dec := c.dec(bytes.NewReader(data))
			for k := 0; k <= n; k++ {
				var got vegeta.Result
				err := dec.Decode(&got)
				switch {
				case err == io.EOF:
					tr.Emit("Decode", KV{"res": "eof"})
				case err != nil:
					tr.Emit("Decode", KV{"res": "err", "err": err.Error()})
				default:
					kv := KV{"res": "rec", "r": render(&got)}
					if k < n { // the library's own notion of equality: the decoded record equals the original, and no longer once any one field differs
						mut := got
						switch r.Intn(12) {
						case 0:
							mut.Attack += "x"
						case 1:
							mut.Seq++
						case 2:
							mut.Code++
						case 3:
							mut.Timestamp = mut.Timestamp.Add(1)
						case 4:
							mut.Latency++
						case 5:
							mut.BytesIn++
						case 6:
							mut.BytesOut++
						case 7:
							mut.Error += "x"
						case 8:
							mut.Body = append(append([]byte{}, mut.Body...), 'x')
						case 9:
							mut.Method += "x"
						case 10:
							mut.URL += "x"
						default:
							mut.Headers = mut.Headers.Clone()
							if mut.Headers == nil {
								mut.Headers = http.Header{}
							}
							mut.Headers["X-Mut"] = append(mut.Headers["X-Mut"], "1")
						}
						kv["equal"], kv["mutant_equal"] = got.Equal(rs[k]), mut.Equal(rs[k])
					}
					tr.Emit("Decode", kv)
				}
			}
			switch c.name {
			case "csv":
				recs := splitCSV(string(data))
				for i := range rs {
					if i < len(recs) {
						tr.Emit("RefRead", KV{"id": i + 1, "layout": "csv", "cols": csvColumns(recs[i])})
					} else {
						tr.Emit("RefRead", KV{"id": i + 1, "layout": "csv", "cols": []any{}})
					}
				}
			case "json":
				for i := range rs {
					line := data[frames[i]["start"].(int):frames[i]["end"].(int)]
					obj, err := jsonObject(line)
					if err != nil {
						obj = map[string]any{"<unreadable>": err.Error()}
					}
					tr.Emit("RefRead", KV{"id": i + 1, "layout": "json", "obj": obj})
				}
			}
		}
		if len(samples) < 2 {
			samples = append(samples, render(&rs[0]))
		}
	}
	// JSON lines whose length sits on and around the multiples of 64 KiB (a reader that gathers a long line piecewise)
	{
		var rs []vegeta.Result
		for i, n := range []int{65535, 65536, 65537, 65538, 100, 131072, 131073, 4097, 4096, 200} {
			rs = append(rs, resultWithJSONLine(r, i, n))
		}
		c := codecByName("json")
		tr.Emit("Reset", KV{"kind": "c07", "codec": "json", "lines": "on and around multiples of 64 KiB"})
		for i := range rs {
			tr.Emit("Encode", KV{"id": i + 1, "r": render(&rs[i])})
		}
		data, _ := encodeAll(c, rs)
		dec := c.dec(bytes.NewReader(data))
		for k := 0; k <= len(rs); k++ {
			var got vegeta.Result
			err := dec.Decode(&got)
			switch {
			case err == io.EOF:
				tr.Emit("Decode", KV{"res": "eof"})
			case err != nil:
				tr.Emit("Decode", KV{"res": "err", "err": err.Error()})
			default:
				tr.Emit("Decode", KV{"res": "rec", "r": render(&got)})
			}
		}
		records += len(rs)
	}
	// independent encoders working at the same time (one per goroutine, each with its own writer and results) share
	// nothing: every stream decodes to its own records
	{
		const G, per = 32, 40
		type job struct {
			c    codec
			rs   []vegeta.Result
			data []byte
		}
		jobs := make([]*job, G)
		for g := range jobs {
			j := &job{c: codecs[g%3]}
			for i := 0; i < per; i++ {
				res := genResult(r, i, 100)
				res.Headers = http.Header{}
				for k := 0; k < 30; k++ { // tens of KiB of headers per record
					res.Headers[fmt.Sprintf("X-G%d-%d", g, k)] = []string{strings.Repeat(fmt.Sprintf("g%d.%d.%d;", g, i, k), 150)}
				}
				j.rs = append(j.rs, res)
			}
			jobs[g] = j
		}
		var wg sync.WaitGroup
		start := make(chan struct{})
		for _, j := range jobs {
			wg.Add(1)
			go func(j *job) {
				defer wg.Done()
				<-start
				j.data, _ = encodeAll(j.c, j.rs)
			}(j)
		}
		close(start)
		wg.Wait()
		digest := func(x *vegeta.Result) map[string]any {
			m := render(x)
			m["Headers"] = fmt.Sprintf("%x", sha256.Sum256([]byte(strings.Join(headerCanon(x.Headers), "\n"))))
			return m
		}
		for _, j := range jobs {
			tr.Emit("Reset", KV{"kind": "c07", "codec": j.c.name, "concurrent_encoders": G})
			for i := range j.rs {
				tr.Emit("Encode", KV{"id": i + 1, "r": digest(&j.rs[i])})
			}
			dec := j.c.dec(bytes.NewReader(j.data))
			for k := 0; k <= per; k++ {
				var got vegeta.Result
				err := dec.Decode(&got)
				switch {
				case err == io.EOF:
					tr.Emit("Decode", KV{"res": "eof"})
				case err != nil:
					tr.Emit("Decode", KV{"res": "err", "err": err.Error()})
				default:
					tr.Emit("Decode", KV{"res": "rec", "r": digest(&got)})
				}
			}
			records += per
		}
	}
	writeJSON(filepath.Join(dir, "c07.summary.json"), KV{"streams": streams * 3, "records": records, "events": tr.N, "samples": samples})
}

// ---------------------------------------------------------------- C09

func TestDrv_C09(t *testing.T) {
	dir := outDir(t)
	r := newRand(9)
	streams := 30
	if thorough() {
		streams = 60
	}
	const P = 16
	trs := make([]*Tracer, P)
	for i := range trs {
		trs[i] = NewTracer(filepath.Join(dir, fmt.Sprintf("c09_%02d.ndjson", i)))
	}
	cuts, cases := 0, 0
	var samples []any
	for s := 0; s < streams; s++ {
		n := 1 + r.Intn(6)
		rs := make([]vegeta.Result, n)
		for i := range rs {
			max := 60
			if r.Intn(3) == 0 {
				max = 20000
				if s%5 == 0 {
					max = 70000 // beyond a 64 KiB line
				}
			}
			rs[i] = genResult(r, i, max)
		}
		if s%6 == 1 { // records as small as they get (a few dozen bytes in every encoding)
			for i := range rs {
				rs[i] = vegeta.Result{Seq: uint64(i), Code: uint16(i % 3), Timestamp: time.Unix(0, int64(i+1)).UTC()}
			}
		}
		if s%2 == 0 { // every other stream certainly holds a record beyond the codecs' internal buffers (4, 16, 64 KiB)
			big := r.Intn(n)
			rs[big].Body = make([]byte, []int{5000, 13000, 20000, 50000, 70000}[(s/2)%5])
			r.Read(rs[big].Body)
		}
		for _, c := range codecs {
			data, frames := encodeAll(c, rs)
			if c.name == "json" && s%3 == 2 && n > 1 {
				data, frames = encodeAllWithFailure(c, rs, 1+r.Intn(n-1))
			}
			total := len(data)
			tr := trs[cases%P]
			cases++
			tr.Emit("Reset", KV{"kind": "c09", "codec": c.name, "frames": frames, "total": total})
			// cut points: every offset for gob and JSON (strided above 8 KiB in the quick tier, but always dense
			// around every frame boundary); every record boundary for CSV
			var points []int
			if c.name == "csv" {
				points = []int{0}
				for _, f := range frames {
					points = append(points, f["end"].(int))
				}
			} else {
				stride := 1
				if total > 8192 && !thorough() {
					stride = 1 + total/3000
				} else if total > 16384 { // thorough: every offset up to 16 KiB, at most ~8000 cut points beyond
					stride = 1 + total/8000
				}
				near := map[int]bool{}
				for _, f := range frames {
					for d := -70; d <= 70; d++ {
						if p := f["end"].(int) + d; p >= 0 && p <= total {
							near[p] = true
						}
					}
				}
				for p := 0; p <= total; p++ {
					if p%stride == 0 || near[p] || p == total {
						points = append(points, p)
					}
				}
			}
			for _, cut := range points {
				for _, reader := range []string{"whole", "byte"} {
					if reader == "byte" && total > 8192 && cut%7 != 0 {
						continue
					}
					var src io.Reader = bytes.NewReader(data[:cut])
					if reader == "byte" {
						src = iotest.OneByteReader(src)
					}
					ids, tail := decodeIDs(c.dec(src), rs, n+3)
					tr.Emit("Cut", KV{"cut": cut, "reader": reader, "out": ids, "tail": tail})
					cuts++
				}
				// the same prefix through auto-detection, from a reader that hands over its last bytes together with the end of
				// the stream (a decompressor, an HTTP body): once the first record is whole, every whole record is there
				if cut >= frames[0]["end"].(int) && (cut%5 == 0 || total <= 8192) {
					if dec := vegeta.DecoderFor(iotest.DataErrReader(bytes.NewReader(data[:cut]))); dec == nil {
						tr.Emit("Cut", KV{"cut": cut, "reader": "auto, data with EOF: no decoder", "out": []int{}, "tail": "eof"})
					} else {
						ids, tail := decodeIDs(dec, rs, n+3)
						tr.Emit("Cut", KV{"cut": cut, "reader": "auto, data with EOF", "out": ids, "tail": tail})
					}
					cuts++
					// ... and from a seekable reader that stands behind an earlier run in the same file (a log that runs are appended
					// to, read from where this run begins): the stream is what follows the reader's position
					if cut%10 == 0 || total <= 2048 {
						earlier, _ := encodeAll(c, []vegeta.Result{{Attack: "an earlier run", Seq: 7, Code: 200, Timestamp: time.Unix(1500000000, 0), Method: "GET", URL: "http://earlier/"}})
						rd := bytes.NewReader(append(append([]byte{}, earlier...), data[:cut]...))
						_, _ = rd.Seek(int64(len(earlier)), io.SeekStart)
						if dec := vegeta.DecoderFor(rd); dec == nil {
							tr.Emit("Cut", KV{"cut": cut, "reader": "auto, behind an earlier run: no decoder", "out": []int{}, "tail": "eof"})
						} else {
							ids, tail := decodeIDs(dec, rs, n+3)
							tr.Emit("Cut", KV{"cut": cut, "reader": "auto, behind an earlier run", "out": ids, "tail": tail})
						}
						cuts++
					}
				}
			}
			if len(samples) < 2 {
				samples = append(samples, KV{"codec": c.name, "frames": frames, "total_bytes": total, "cut_points": len(points)})
			}
		}
	}
	// a first record far larger than any buffer (a 20 MiB response body captured with -max-body=-1), then small ones, cut
	// after the first record, inside the second and not at all: through auto-detection, as the commands read it
	{
		rs := []vegeta.Result{genResult(r, 0, 100), genResult(r, 1, 100), genResult(r, 2, 100)}
		rs[0].Body = make([]byte, 20<<20)
		r.Read(rs[0].Body)
		for _, c := range codecs {
			data, frames := encodeAll(c, rs)
			tr := trs[cases%P]
			cases++
			tr.Emit("Reset", KV{"kind": "c09", "codec": c.name, "frames": frames, "total": len(data)})
			e0, e1 := frames[0]["end"].(int), frames[1]["end"].(int)
			for _, cut := range []int{e0, (e0 + e1) / 2, e1, len(data)} {
				if c.name == "csv" && cut == (e0+e1)/2 {
					continue // CSV: record boundaries only
				}
				if dec := vegeta.DecoderFor(bytes.NewReader(data[:cut])); dec == nil {
					tr.Emit("Cut", KV{"cut": cut, "reader": "auto: no decoder", "out": []int{}, "tail": "eof"})
				} else {
					ids, tail := decodeIDs(dec, rs, len(rs)+3)
					tr.Emit("Cut", KV{"cut": cut, "reader": "auto", "out": ids, "tail": tail})
				}
				cuts++
			}
		}
	}
	// the commands read several files through one round-robin decoder: a cut stream next to whole ones
	cases += cutNextToSparse(trs[0], r, 60)
	events := 0
	for _, tr := range trs {
		events += tr.N
		tr.Close()
	}
	writeJSON(filepath.Join(dir, "c09.summary.json"), KV{"streams": cases, "cuts": cuts, "events": events, "samples": samples})
}

// ---------------------------------------------------------------- C08

type chunkReader struct {
	r       io.Reader
	size    int // > 0 fixed chunk size; -1 short first chunk; -2 random sizes
	first   int
	started bool
	rnd     *rand.Rand
}

func (c *chunkReader) Read(p []byte) (int, error) {
	n := c.size
	switch {
	case c.size == -1: // a short first chunk, then whatever is asked for
		n = len(p)
		if !c.started {
			n = c.first
		}
	case c.size == -2: // irregular chunks
		n = 1 + c.rnd.Intn(5000)
	}
	c.started = true
	if len(p) > n {
		p = p[:n]
	}
	return c.r.Read(p)
}

func TestDrv_C08(t *testing.T) {
	dir := outDir(t)
	tr := NewTracer(filepath.Join(dir, "c08.ndjson"))
	defer tr.Close()
	r := newRand(8)
	streams := 60
	if thorough() {
		streams = 400
	}
	cases := 0
	var samples []any
	chunkSizes := []int{1, 2, 7, 512, 2500, 4096, 1 << 30, -1, -1, -2, -2}
	for s := 0; s < streams; s++ {
		n := 1 + r.Intn(12)
		rs := make([]vegeta.Result, n)
		for i := range rs {
			max := 50
			if i == 0 && s%3 == 0 {
				max = []int{5000, 70000, 200000}[r.Intn(3)] // a first record larger than the I/O buffers
			} else if r.Intn(6) == 0 {
				max = 9000
			}
			rs[i] = genResult(r, i, max)
			if i == 0 && s%3 == 0 {
				rs[i].Body = make([]byte, max)
				r.Read(rs[i].Body)
			}
		}
		if s%10 == 3 {
			rs[0] = vegeta.Result{} // a first record with nothing in it: every field at its zero value (the year-1 instant has no CSV form)
		}
		for _, c := range codecs {
			if s%10 == 3 && c.name == "csv" {
				continue
			}
			data, _ := encodeAll(c, rs)
			for _, cs := range chunkSizes {
				if cs == 1 && len(data) > 20000 {
					continue
				}
				cases++
				tr.Emit("Reset", KV{"kind": "c08", "codec": c.name, "n": n, "chunk": cs, "bytes": len(data)})
				dec := vegeta.DecoderFor(&chunkReader{r: bytes.NewReader(data), size: cs, first: 1 + r.Intn(400), rnd: r})
				if dec == nil {
					tr.Emit("Auto", KV{"detected": false, "out": []int{}, "tail": "none"})
					continue
				}
				ids, tail := decodeIDs(dec, rs, n+3)
				tr.Emit("Auto", KV{"detected": true, "out": ids, "tail": tail})
			}
		}
		if len(samples) < 2 {
			samples = append(samples, KV{"records": n, "first_body_bytes": len(rs[0].Body)})
		}
	}
	// a first record from before 1970 (its CSV line starts with a minus sign), from readers that can peek and un-read a byte
	{
		rs := []vegeta.Result{genResult(r, 0, 100), genResult(r, 1, 100), genResult(r, 2, 100)}
		rs[0].Timestamp = time.Unix(-86400*365*3-12345, 678).UTC()
		for _, c := range codecs {
			data, _ := encodeAll(c, rs)
			for _, kind := range []string{"bytes.Reader", "bytes.Buffer", "strings.Reader", "bufio.Reader"} {
				cases++
				tr.Emit("Reset", KV{"kind": "c08", "codec": c.name, "n": len(rs), "chunk": 0, "bytes": len(data), "reader": kind + ", first record of 1966"})
				var rd io.Reader
				switch kind {
				case "bytes.Reader":
					rd = bytes.NewReader(data)
				case "bytes.Buffer":
					rd = bytes.NewBuffer(append([]byte{}, data...))
				case "strings.Reader":
					rd = strings.NewReader(string(data))
				default:
					rd = bufio.NewReader(bytes.NewReader(data))
				}
				dec := vegeta.DecoderFor(rd)
				if dec == nil {
					tr.Emit("Auto", KV{"detected": false, "out": []int{}, "tail": "none"})
					continue
				}
				ids, tail := decodeIDs(dec, rs, len(rs)+3)
				tr.Emit("Auto", KV{"detected": true, "out": ids, "tail": tail})
			}
		}
	}
	// a first record far larger than any buffer (a 20 MiB response body captured with -max-body=-1), then small ones
	{
		rs := []vegeta.Result{genResult(r, 0, 100), genResult(r, 1, 100), genResult(r, 2, 100)}
		rs[0].Body = make([]byte, 20<<20)
		r.Read(rs[0].Body)
		for _, c := range codecs {
			data, _ := encodeAll(c, rs)
			for _, chunk := range []int{0, 1 << 16} {
				cases++
				tr.Emit("Reset", KV{"kind": "c08", "codec": c.name, "n": len(rs), "chunk": chunk, "bytes": len(data), "reader": "first record of 20 MiB"})
				var rd io.Reader = bytes.NewReader(data)
				if chunk > 0 {
					rd = &chunkReader{r: bytes.NewReader(data), size: chunk}
				}
				dec := vegeta.DecoderFor(rd)
				if dec == nil {
					tr.Emit("Auto", KV{"detected": false, "out": []int{}, "tail": "none"})
					continue
				}
				ids, tail := decodeIDs(dec, rs, len(rs)+3)
				tr.Emit("Auto", KV{"detected": true, "out": ids, "tail": tail})
			}
		}
	}
	// a seekable reader that the caller has already read a preamble from: the stream starts at its current position
	for s := 0; s < 6; s++ {
		n := 2 + r.Intn(5)
		rs := make([]vegeta.Result, n)
		for i := range rs {
			rs[i] = genResult(r, i, 100)
		}
		for _, c := range codecs {
			data, _ := encodeAll(c, rs)
			pre := []byte("# preamble line that is not part of the stream\n")
			whole := append(append([]byte{}, pre...), data...)
			for _, kind := range []string{"bytes.Reader", "os.File"} {
				cases++
				tr.Emit("Reset", KV{"kind": "c08", "codec": c.name, "n": n, "chunk": 0, "bytes": len(data), "reader": kind + " at offset " + fmt.Sprint(len(pre))})
				var rd io.Reader
				if kind == "bytes.Reader" {
					br := bytes.NewReader(whole)
					br.Seek(int64(len(pre)), io.SeekStart)
					rd = br
				} else {
					p := filepath.Join(dir, fmt.Sprintf("c08seek%d.%s", s, c.name))
					must(os.WriteFile(p, whole, 0o644))
					f, err := os.Open(p)
					must(err)
					defer f.Close()
					f.Seek(int64(len(pre)), io.SeekStart)
					rd = f
				}
				dec := vegeta.DecoderFor(rd)
				if dec == nil {
					tr.Emit("Auto", KV{"detected": false, "out": []int{}, "tail": "none"})
					continue
				}
				ids, tail := decodeIDs(dec, rs, n+3)
				tr.Emit("Auto", KV{"detected": true, "out": ids, "tail": tail})
			}
		}
	}
	// input that is in none of the formats
	gobOne, _ := encodeAll(codecs[0], []vegeta.Result{genResult(r, 0, 10)})
	junk := [][]byte{{}, []byte("garbage\n"), []byte("\n"), []byte("{\"x\":"), []byte("{}"), []byte("[1,2,3]\n"),
		[]byte("1,2,3,4,5,6,7,8,9,10,11\n"), []byte("a,b,c,d,e,f,g,h,i,j,k,l\n"), gobOne[:len(gobOne)/2], bytes.Repeat([]byte{0xff, 0x00, 0x7f}, 100)}
	// (no random blobs here: about one random blob in 12 000 starts with the two bytes of a well-formed, empty gob message and
	// is rightly taken for gob - "in none of the formats" can only be said of inputs built not to be)
	for i := 0; i < 20; i++ {
		b := []byte(genText(r, 300) + "\n") // random text lines: no JSON object, not twelve CSV columns, no gob length prefix
		if len(b) > 0 && b[0] < 0x20 {
			b[0] = 'x'
		}
		junk = append(junk, b)
	}
	for _, j := range junk {
		cases++
		tr.Emit("Reset", KV{"kind": "c08", "codec": "none", "n": 0, "chunk": 0, "bytes": len(j)})
		dec := vegeta.DecoderFor(bytes.NewReader(j))
		tr.Emit("Auto", KV{"detected": dec != nil, "out": []int{}, "tail": "none"})
	}
	// transcoding chains through the encode command
	chains := 0
	if os.Getenv("VERIF_MAINDRV") != "" {
		maxLen := 3
		if thorough() {
			maxLen = 4
		}
		names := []string{"gob", "csv", "json"}
		var all [][]string
		var rec func(prefix []string)
		rec = func(prefix []string) {
			if len(prefix) > 0 {
				all = append(all, append([]string{}, prefix...))
			}
			if len(prefix) == maxLen {
				return
			}
			for _, nm := range names {
				rec(append(prefix, nm))
			}
		}
		rec(nil)
		n := 8
		rs := make([]vegeta.Result, n)
		for i := range rs {
			rs[i] = genResult(r, i, 3000)
		}
		rs[3].Headers, rs[4].Headers = nil, http.Header{"X-A": {"1"}}
		var ops []map[string]any
		type job struct {
			chain []string
			last  string
		}
		var jobs []job
		for ci, chain := range all {
			src := names[ci%3]
			data, _ := encodeAll(codecByName(src), rs)
			// a file's name says nothing about its format: in turn the names carry the format they hold, none, and another one
			ext := func(format string) string {
				switch ci % 3 {
				case 1:
					return "dat"
				case 2:
					return map[string]string{"gob": "json", "json": "csv", "csv": "gob"}[format]
				}
				return format
			}
			in := filepath.Join(dir, fmt.Sprintf("chain%d.0.%s", ci, ext(src)))
			must(os.WriteFile(in, data, 0o644))
			prev := in
			for step, to := range chain {
				out := filepath.Join(dir, fmt.Sprintf("chain%d.%d.%s", ci, step+1, ext(to)))
				ops = append(ops, map[string]any{"op": "encode", "files": []string{prev}, "to": to, "output": out})
				prev = out
			}
			jobs = append(jobs, job{append([]string{src}, chain...), prev})
		}
		res, err := runMain(dir, ops)
		if err != nil {
			t.Fatal(err)
		}
		oi := 0
		for _, j := range jobs {
			cases++
			chains++
			errs := ""
			for range j.chain[1:] {
				if e, _ := res[oi]["err"].(string); e != "" {
					errs = e
				}
				if p, _ := res[oi]["panic"].(string); p != "" {
					errs = "panic: " + p
				}
				oi++
			}
			tr.Emit("Reset", KV{"kind": "c08", "codec": j.chain[0], "n": n, "chain": j.chain})
			f, err := os.Open(j.last)
			if err != nil {
				tr.Emit("Chain", KV{"err": "no output: " + errs, "out": []int{}, "tail": "none"})
				continue
			}
			ids, tail := decodeIDs(codecByName(j.chain[len(j.chain)-1]).dec(f), rs, n+3)
			f.Close()
			tr.Emit("Chain", KV{"err": errs, "out": ids, "tail": tail})
		}
	}
	writeJSON(filepath.Join(dir, "c08.summary.json"), KV{"cases": cases, "chains": chains, "junk_inputs": len(junk), "events": tr.N, "samples": samples})
}

// ---------------------------------------------------------------- C13

func TestDrv_C13(t *testing.T) {
	dir := outDir(t)
	tr := NewTracer(filepath.Join(dir, "c13.ndjson"))
	defer tr.Close()
	r := newRand(13)
	splits := 150
	if thorough() {
		splits = 600
	}
	cases := 0
	var samples []any
	var ops []map[string]any
	type cmdJob struct {
		kind  string // "decoder" | "encode" | "report"
		lens  []int
		rs    [][]vegeta.Result
		out   string
		rtype string
		pair  int // index of the single-file report op
	}
	var jobs []cmdJob
	for s := 0; s < splits; s++ {
		k := 1 + r.Intn(6)
		if s%9 == 4 {
			k = 12 + r.Intn(20) // many files
		}
		if s%27 == 13 {
			k = 65 + r.Intn(30) // more files than a machine word has bits
		}
		lens := make([]int, k)
		files := make([][]vegeta.Result, k)
		encs := make([]string, k)
		var union []vegeta.Result
		id := 0
		for f := 0; f < k; f++ {
			lens[f] = []int{1, 1, 2, 3, 5, 9, 17}[r.Intn(7)] // a length of one is "empty after the first (sniffed) record"
			encs[f] = codecs[r.Intn(3)].name
			if s%4 == 3 && f%2 == 0 {
				encs[f] = "json" // (the seam of the line reader concerns JSON files)
			}
			if s%5 == 2 && f == 0 {
				encs[f] = "csv" // (a CSV record with a line break inside a field, ending just behind a multiple of 4 KiB)
			}
			for i := 0; i < lens[f]; i++ {
				res := genResult(r, id, 200)
				res.Attack = fmt.Sprintf("f%d", f) // (attack, seq) identifies the record
				res.Seq = uint64(i)
				res.Latency = time.Duration(r.Int63n(1e10))
				// all requests start within the same second, so the end of the set is decided by latencies,
				// not by the request that started last
				res.Timestamp = time.Unix(1700000000, 0).Add(time.Duration(r.Int63n(1e9)))
				res.BytesIn, res.BytesOut = uint64(r.Intn(1e6)), uint64(r.Intn(1e6))
				res.Code = []uint16{200, 200, 404, 500, 0}[r.Intn(5)]
				// plain error texts: the text report aligns the error set with a tabwriter, so tabs and
				// newlines inside an error would make its layout depend on the order of first appearance
				res.Error = []string{"", "", "e1", "connection refused", "500 Internal Server Error"}[r.Intn(5)]
				if r.Intn(3) == 0 { // zero-valued and empty fields right after set ones
					res.Error, res.Body, res.Headers, res.BytesIn, res.Code = "", nil, nil, 0, 0
				}
				if s%4 == 3 && i == lens[f]/2 && i > 0 { // a JSON line of exactly 64 KiB + 1 (or a multiple): the line reader's seam
					padToJSONLine(r, &res, []int{65537, 131073, 65536}[s%3])
				}
				if s%4 == 1 && i == lens[f]/2 && i > 0 { // a record whose encoded line exceeds the decoders' buffers, not first in its file
					res.Body = make([]byte, 70000)
					r.Read(res.Body)
				}
				if s%5 == 2 && f == 0 && i == 0 {
					padToCSVRecord(&res, []int{4097, 4196, 8192 + 37, 12288 + 2000}[s/5%4])
				}
				if s%50 == 12 && f == 0 && i == lens[f]-1 { // (file 0 is CSV here) a result with more than a MiB of response headers
					res.Headers = http.Header{}
					for k := 0; k < 20; k++ {
						res.Headers[fmt.Sprintf("X-Big-%02d", k)] = []string{strings.Repeat(string(rune('a'+k)), 65536)}
					}
				}
				files[f] = append(files[f], res)
				union = append(union, res)
				id++
			}
		}
		match := func(got *vegeta.Result) KV {
			var f int
			if _, err := fmt.Sscanf(got.Attack, "f%d", &f); err == nil && f >= 0 && f < k && int(got.Seq) < lens[f] && sameResult(got, &files[f][got.Seq]) {
				return KV{"f": f + 1, "i": int(got.Seq) + 1}
			}
			return KV{"f": 0, "i": 0}
		}
		// library level: one auto-detected decoder per input, combined round robin
		cases++
		tr.Emit("Reset", KV{"kind": "c13", "lens": lens, "encs": encs, "via": "NewRoundRobinDecoder"})
		var decs []vegeta.Decoder
		paths := make([]string, k)
		ok := true
		for f := 0; f < k; f++ {
			data, _ := encodeAll(codecByName(encs[f]), files[f])
			paths[f] = filepath.Join(dir, fmt.Sprintf("c13_%d_%d.%s", s, f, encs[f]))
			if s%4 == 3 {
				// file names are names, whatever characters they are made of: some that a shell would read as patterns
				// matching their neighbours
				name := strconv.Itoa(f)
				if odd := []string{"0", "[0]", "?", "*", "[0-9]", "{0,1}"}; f < len(odd) {
					name = odd[f]
				}
				paths[f] = filepath.Join(dir, fmt.Sprintf("c13_%d_%s.dat", s, name))
			}
			must(os.WriteFile(paths[f], data, 0o644))
			d := vegeta.DecoderFor(bytes.NewReader(data))
			if d == nil {
				ok = false
				break
			}
			decs = append(decs, d)
		}
		if !ok {
			tr.Emit("Multi", KV{"out": []KV{}, "tail": "undetected"})
		} else {
			dec := vegeta.NewRoundRobinDecoder(decs...)
			out := []KV{}
			tail := "runaway"
			for n := 0; n < len(union)+3; n++ {
				var got vegeta.Result
				err := dec.Decode(&got)
				if err == io.EOF {
					tail = "eof"
					break
				} else if err != nil {
					tail = "err"
					break
				}
				out = append(out, match(&got))
			}
			tr.Emit("Multi", KV{"out": out, "tail": tail})
		}
		if len(samples) < 2 {
			samples = append(samples, KV{"lens": lens, "encodings": encs})
		}
		// command level (a third of the splits): decoder(files), encode, report over the files vs their union
		if s%3 == 0 && os.Getenv("VERIF_MAINDRV") != "" {
			ops = append(ops, map[string]any{"op": "decoder", "files": paths})
			jobs = append(jobs, cmdJob{kind: "decoder", lens: lens, rs: files})
			eo := filepath.Join(dir, fmt.Sprintf("c13_%d_out.gob", s))
			ops = append(ops, map[string]any{"op": "encode", "files": paths, "to": "gob", "output": eo})
			jobs = append(jobs, cmdJob{kind: "encode", lens: lens, rs: files, out: eo})
			rpaths := paths
			if s%6 == 0 { // the same file named twice on the command line counts twice
				rpaths = append(append([]string{}, paths...), paths[0])
				union = append(append([]vegeta.Result{}, union...), files[0]...)
			}
			udata, _ := encodeAll(codecs[0], union)
			upath := filepath.Join(dir, fmt.Sprintf("c13_%d_union.gob", s))
			must(os.WriteFile(upath, udata, 0o644))
			rtype := []string{"json", "text", "hist[0,1ms,1s]", "hdrplot"}[(s/3)%4]
			so, mo := filepath.Join(dir, fmt.Sprintf("c13_%d_single.rep", s)), filepath.Join(dir, fmt.Sprintf("c13_%d_multi.rep", s))
			ops = append(ops, map[string]any{"op": "report", "files": []string{upath}, "type": rtype, "output": so})
			jobs = append(jobs, cmdJob{kind: "single", out: so, rtype: rtype, lens: lens})
			ops = append(ops, map[string]any{"op": "report", "files": rpaths, "type": rtype, "output": mo})
			jobs = append(jobs, cmdJob{kind: "report", out: mo, rtype: rtype, lens: lens, pair: len(jobs) - 1})
		}
	}
	cases += cutNextToSparse(tr, r, 60)
	if len(ops) > 0 {
		res, err := runMain(dir, ops)
		if err != nil {
			t.Fatal(err)
		}
		fail := func(i int) string {
			if p, _ := res[i]["panic"].(string); p != "" {
				return "panic: " + p
			}
			e, _ := res[i]["err"].(string)
			return e
		}
		for i, j := range jobs {
			k := len(j.lens)
			match := func(got *vegeta.Result) KV {
				var f int
				if _, err := fmt.Sscanf(got.Attack, "f%d", &f); err == nil && f >= 0 && f < k && int(got.Seq) < j.lens[f] && sameResult(got, &j.rs[f][got.Seq]) {
					return KV{"f": f + 1, "i": int(got.Seq) + 1}
				}
				return KV{"f": 0, "i": 0}
			}
			switch j.kind {
			case "decoder":
				cases++
				tr.Emit("Reset", KV{"kind": "c13", "lens": j.lens, "via": "decoder(files)"})
				out := []KV{}
				tail := "eof"
				if e := fail(i); e != "" {
					tail = "err"
				}
				if list, ok := res[i]["results"].([]any); ok {
					for _, x := range list {
						bs, _ := json.Marshal(x)
						var vr struct {
							Attack    string
							Seq       uint64
							Code      uint16
							Timestamp string
							Latency   int64
							BytesOut  uint64
							BytesIn   uint64
							Error     string
							Body      []byte
							Method    string
							URL       string
							Headers   http.Header
						}
						if err := json.Unmarshal(bs, &vr); err != nil {
							out = append(out, KV{"f": 0, "i": 0})
							continue
						}
						ns, _ := strconv.ParseInt(vr.Timestamp, 10, 64)
						got := vegeta.Result{Attack: vr.Attack, Seq: vr.Seq, Code: vr.Code, Timestamp: time.Unix(0, ns), Latency: time.Duration(vr.Latency),
							BytesOut: vr.BytesOut, BytesIn: vr.BytesIn, Error: vr.Error, Body: vr.Body, Method: vr.Method, URL: vr.URL, Headers: vr.Headers}
						out = append(out, match(&got))
					}
				}
				tr.Emit("Multi", KV{"out": out, "tail": tail})
			case "encode":
				cases++
				tr.Emit("Reset", KV{"kind": "c13", "lens": j.lens, "via": "encode command"})
				out := []KV{}
				tail := "eof"
				if e := fail(i); e != "" {
					tail = "err"
				} else if f, err := os.Open(j.out); err != nil {
					tail = "err"
				} else {
					dec := vegeta.NewDecoder(f)
					for {
						var got vegeta.Result
						if err := dec.Decode(&got); err != nil {
							if err != io.EOF {
								tail = "err"
							}
							break
						}
						out = append(out, match(&got))
					}
					f.Close()
				}
				tr.Emit("Multi", KV{"out": out, "tail": tail})
			case "report":
				cases++
				tr.Emit("Reset", KV{"kind": "c13", "lens": j.lens, "via": "report " + j.rtype})
				e := fail(i) + fail(j.pair)
				single, _ := os.ReadFile(jobs[j.pair].out)
				multi, _ := os.ReadFile(j.out)
				tr.Emit("ReportPair", KV{"err": e, "single": reportExact(j.rtype, single), "multi": reportExact(j.rtype, multi)})
			}
		}
	}
	writeJSON(filepath.Join(dir, "c13.summary.json"), KV{"cases": cases, "splits": splits, "command_jobs": len(jobs), "events": tr.N, "samples": samples})
}

// reportExact projects a report on its exact, order-independent content: for the JSON report every field except
// the estimator percentiles (order dependent, C11's business) with the error set sorted; for text and hdrplot
// the same lines are dropped; the histogram report is exact as a whole.
func reportExact(rtype string, data []byte) any {
	switch {
	case rtype == "json":
		var m map[string]any
		dec := json.NewDecoder(bytes.NewReader(data))
		dec.UseNumber()
		if err := dec.Decode(&m); err != nil {
			return "unreadable: " + err.Error()
		}
		if lat, ok := m["latencies"].(map[string]any); ok {
			for _, q := range []string{"50th", "90th", "95th", "99th"} {
				delete(lat, q)
			}
		}
		if errs, ok := m["errors"].([]any); ok {
			ss := make([]string, len(errs))
			for i, e := range errs {
				ss[i] = fmt.Sprint(e)
			}
			sort.Strings(ss)
			m["errors"] = ss
		}
		bs, _ := json.Marshal(m)
		return string(bs)
	case rtype == "text":
		lines := strings.Split(string(data), "\n")
		var keep []string
		errset := false
		var errs []string
		for _, ln := range lines {
			switch {
			case strings.HasPrefix(ln, "Latencies"):
				f := strings.Fields(ln)
				if len(f) > 10 {
					keep = append(keep, "Latencies min="+f[8]+" mean="+f[9]+" max="+f[len(f)-1]) // percentiles dropped
				}
			case strings.HasPrefix(ln, "Error Set:"):
				errset = true
			case errset:
				if ln != "" {
					errs = append(errs, ln)
				}
			default:
				keep = append(keep, ln)
			}
		}
		sort.Strings(errs)
		return strings.Join(append(keep, errs...), "\n")
	case rtype == "hdrplot":
		// every value comes from the estimator; only the shape (rows and total counts) is exact
		var keep []string
		for _, ln := range strings.Split(string(data), "\n") {
			f := strings.Fields(ln)
			if len(f) == 4 {
				keep = append(keep, f[1]+" "+f[2])
			}
		}
		return strings.Join(keep, "\n")
	default:
		return string(data)
	}
}

// cutNextToSparse: a JSON file cut inside a line (a killed attack) is read next to whole files of sparse records through
// the round-robin decoder: the union is the clean prefix of the cut file plus the others, and nothing of the unfinished
// line shows up in any record.
func cutNextToSparse(tr *Tracer, r *rand.Rand, n int) (cases int) {
	for c := 0; c < n; c++ {
		k := 2 + r.Intn(2)
		lens := make([]int, k)
		files := make([][]vegeta.Result, k)
		encs := make([]string, k)
		var datas [][]byte
		for f := 0; f < k; f++ {
			lens[f] = 1 + r.Intn(4)
			encs[f] = codecs[r.Intn(3)].name
			if f == 0 {
				encs[f] = "json"
				lens[f] = 2 + r.Intn(3)
			}
			for i := 0; i < lens[f]; i++ {
				res := vegeta.Result{Attack: fmt.Sprintf("f%d", f), Seq: uint64(i), Timestamp: time.Unix(1700000000+int64(i), int64(f)), Latency: time.Duration(1 + r.Intn(9))}
				if f == 0 { // every field of the cut file's records is set
					res.Code, res.Error, res.Body, res.Method, res.URL = 201, "connection refused", []byte("payload"), "POST", "http://cut.example/"
					res.Headers, res.BytesIn, res.BytesOut = http.Header{"X-Cut": {"1"}}, 77, 88
				}
				files[f] = append(files[f], res)
			}
			data, frames := encodeAll(codecByName(encs[f]), files[f])
			if f == 0 { // cut strictly inside the last record's line
				last := frames[len(frames)-1]
				lo, hi := last["start"].(int), last["end"].(int)
				data = data[:lo+1+r.Intn(hi-lo-1)]
				lens[0]--
			}
			datas = append(datas, data)
		}
		cases++
		tr.Emit("Reset", KV{"kind": "c13", "lens": lens, "encs": encs, "via": "NewRoundRobinDecoder, first file cut inside its last line"})
		var decs []vegeta.Decoder
		for f := range datas {
			if d := vegeta.DecoderFor(bytes.NewReader(datas[f])); d != nil {
				decs = append(decs, d)
			}
		}
		out := []KV{}
		tail := "undetected"
		if len(decs) == k {
			dec := vegeta.NewRoundRobinDecoder(decs...)
			tail = "runaway"
			for n := 0; n < 20; n++ {
				var got vegeta.Result
				err := dec.Decode(&got)
				if err == io.EOF {
					tail = "eof"
					break
				} else if err != nil {
					tail = "err"
					break
				}
				var f int
				m := KV{"f": 0, "i": 0}
				if _, err := fmt.Sscanf(got.Attack, "f%d", &f); err == nil && f >= 0 && f < k && int(got.Seq) < lens[f] && sameResult(&got, &files[f][got.Seq]) {
					m = KV{"f": f + 1, "i": int(got.Seq) + 1}
				}
				out = append(out, m)
			}
		}
		tr.Emit("Multi", KV{"out": out, "tail": tail})
	}
	return cases
}

// resultWithJSONLine builds a result whose JSON line (newline included) is exactly n bytes long.
func resultWithJSONLine(r *rand.Rand, id int, n int) vegeta.Result {
	res := genResult(r, id, 10)
	padToJSONLine(r, &res, n)
	return res
}

// padToJSONLine gives res the body and error text that make its JSON line (newline included) exactly n bytes long.
// padToCSVRecord gives the result a URL with a line break in it, of such a length that its CSV record (which spans two lines)
// is n bytes long.
func padToCSVRecord(res *vegeta.Result, n int) {
	recLen := func() int {
		var buf bytes.Buffer
		must(vegeta.NewCSVEncoder(&buf).Encode(res))
		return buf.Len()
	}
	res.URL = "http://h/first line\nsecond line "
	for l := recLen(); l < n; l = recLen() {
		res.URL += strings.Repeat("u", n-l)
	}
}

func padToJSONLine(r *rand.Rand, res *vegeta.Result, n int) {
	res.Headers, res.Error, res.Body = nil, "", nil
	lineLen := func() int {
		var buf bytes.Buffer
		must(vegeta.NewJSONEncoder(&buf).Encode(res))
		return buf.Len()
	}
	base := lineLen()
	if n <= base+8 {
		return
	}
	res.Body = make([]byte, (n-base-8)/4*3) // base64: four characters for three bytes
	r.Read(res.Body)
	for l := lineLen(); l < n; l = lineLen() { // the rest, a character at a time, in the error text
		res.Error += strings.Repeat("e", n-l)
	}
}
