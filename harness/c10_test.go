package vh

// C10 driver: adds result multisets to the real vegeta.Metrics in several
// orders with intermediate Close calls, also through the JSON reporter and the
// report command, and logs Add / Close events for spec/report/MetricsTrace.tla.

import (
	"bytes"
	"encoding/json"
	"fmt"
	"math"
	"math/big"
	"math/rand"
	"os"
	"path/filepath"
	"sort"
	"strconv"
	"strings"
	"testing"
	"time"

	vegeta "github.com/tsenart/vegeta/v12/lib"
)

var e9 = big.NewRat(1000000000, 1)

// scaled renders round(x * 10^9) of a non-negative rational as BigNat limbs.
func scaledRat(x *big.Rat) []int {
	y := new(big.Rat).Mul(x, e9)
	num, den := new(big.Int).Set(y.Num()), y.Denom()
	num.Mul(num, big.NewInt(2)).Add(num, den)
	q := new(big.Int).Div(num, new(big.Int).Mul(den, big.NewInt(2)))
	return bigInt(q)
}

func bigInt(q *big.Int) []int {
	out := []int{}
	q = new(big.Int).Set(q)
	base, m := big.NewInt(10000), new(big.Int)
	for q.Sign() > 0 {
		q.DivMod(q, base, m)
		out = append(out, int(m.Int64()))
	}
	return out
}

func scaledFloat(f float64) []int {
	if math.IsNaN(f) || math.IsInf(f, 0) || f < 0 {
		return []int{9999, 9999, 9999, 9999, 9999, 9999, 9999, 9999} // matches nothing
	}
	return scaledRat(new(big.Rat).SetFloat64(f))
}

func codePairs(m map[string]int) [][]int {
	out := [][]int{}
	for k, v := range m {
		c, err := strconv.Atoi(k)
		if err != nil {
			c = -1
		}
		out = append(out, []int{c, v})
	}
	sort.Slice(out, func(i, j int) bool { return out[i][0] < out[j][0] })
	return out
}

func closeEvent(m *vegeta.Metrics, via string) KV {
	errs := m.Errors
	if errs == nil {
		errs = []string{}
	}
	kv := KV{"via": via, "requests": m.Requests, "codes": codePairs(m.StatusCodes), "errors": errs,
		"bytes_in": Big(m.BytesIn.Total), "bytes_out": Big(m.BytesOut.Total),
		"lat_total": Big(uint64(m.Latencies.Total)), "lat_max": Big(uint64(m.Latencies.Max)), "lat_min": Big(uint64(m.Latencies.Min)),
		"lat_mean": Big(uint64(m.Latencies.Mean))}
	if m.Requests > 0 {
		kv["earliest"] = Big(tsNs(m.Earliest))
		kv["latest"] = Big(tsNs(m.Latest))
		kv["end"] = Big(tsNs(m.End))
		kv["duration"] = Big(uint64(m.Duration))
		kv["wait"] = Big(uint64(m.Wait))
		kv["success"] = scaledFloat(m.Success)
		kv["rate"] = scaledFloat(m.Rate)
		kv["throughput"] = scaledFloat(m.Throughput)
		kv["bytes_in_mean"] = scaledFloat(m.BytesIn.Mean)
		kv["bytes_out_mean"] = scaledFloat(m.BytesOut.Mean)
	}
	return kv
}

// jsonReport mirrors the documented JSON report; numbers are kept as text.
type jsonReport struct {
	Latencies struct {
		Total, Mean, Max, Min json.Number
	} `json:"latencies"`
	BytesIn struct {
		Total, Mean json.Number
	} `json:"bytes_in"`
	BytesOut struct {
		Total, Mean json.Number
	} `json:"bytes_out"`
	Earliest    time.Time      `json:"earliest"`
	Latest      time.Time      `json:"latest"`
	End         time.Time      `json:"end"`
	Duration    json.Number    `json:"duration"`
	Wait        json.Number    `json:"wait"`
	Requests    uint64         `json:"requests"`
	Rate        json.Number    `json:"rate"`
	Throughput  json.Number    `json:"throughput"`
	Success     json.Number    `json:"success"`
	StatusCodes map[string]int `json:"status_codes"`
	Errors      []string       `json:"errors"`
}

func numBig(n json.Number) []int {
	q, ok := new(big.Int).SetString(n.String(), 10)
	if !ok || q.Sign() < 0 {
		return []int{9999, 9999, 9999, 9999, 9999, 9999, 9999, 9999}
	}
	return bigInt(q)
}

func numScaled(n json.Number) []int {
	r, ok := new(big.Rat).SetString(n.String())
	if !ok || r.Sign() < 0 {
		return []int{9999, 9999, 9999, 9999, 9999, 9999, 9999, 9999}
	}
	return scaledRat(r)
}

func closeEventJSON(bs []byte, via string) (KV, error) {
	var jr jsonReport
	dec := json.NewDecoder(bytes.NewReader(bs))
	dec.UseNumber()
	if err := dec.Decode(&jr); err != nil {
		return nil, err
	}
	errs := jr.Errors
	if errs == nil {
		errs = []string{}
	}
	kv := KV{"via": via, "requests": jr.Requests, "codes": codePairs(jr.StatusCodes), "errors": errs,
		"bytes_in": numBig(jr.BytesIn.Total), "bytes_out": numBig(jr.BytesOut.Total),
		"lat_total": numBig(jr.Latencies.Total), "lat_max": numBig(jr.Latencies.Max), "lat_min": numBig(jr.Latencies.Min),
		"lat_mean": numBig(jr.Latencies.Mean)}
	if jr.Requests > 0 {
		kv["earliest"] = Big(tsNs(jr.Earliest))
		kv["latest"] = Big(tsNs(jr.Latest))
		kv["end"] = Big(tsNs(jr.End))
		kv["duration"] = numBig(jr.Duration)
		kv["wait"] = numBig(jr.Wait)
		kv["success"] = numScaled(jr.Success)
		kv["rate"] = numScaled(jr.Rate)
		kv["throughput"] = numScaled(jr.Throughput)
		kv["bytes_in_mean"] = numScaled(jr.BytesIn.Mean)
		kv["bytes_out_mean"] = numScaled(jr.BytesOut.Mean)
	}
	return kv, nil
}

// tsNs is an instant as nanoseconds since 1970 - also beyond 2262, where UnixNano no longer can (good until 2554).
func tsNs(t time.Time) uint64 { return uint64(t.Unix())*1000000000 + uint64(t.Nanosecond()) }

func addEvent(r *vegeta.Result) KV {
	return KV{"code": int(r.Code), "ts": Big(tsNs(r.Timestamp)), "lat": Big(uint64(r.Latency)),
		"bin": Big(r.BytesIn), "bout": Big(r.BytesOut), "err": r.Error}
}

// genMultiset draws one multiset of the property's domain.
func genMultiset(r *rand.Rand, n int) []vegeta.Result {
	base := time.Unix(int64(r.Intn(7e9)), int64(r.Intn(1e9))) // 1970 .. 2191
	tsMode, latMode := r.Intn(4), r.Intn(5)
	codes := [][]uint16{{200}, {200, 404, 500}, {0, 100, 199, 200, 204, 302, 399, 400, 404, 599},
		{25, 39, 200, 2000, 3999, 20000, 39999, 65535, 7, 99, 1000},
		{0, 1, 9, 10, 11, 99, 100, 101, 999, 1000, 1001, 9999, 10000, 10001, 65534, 65535}}[r.Intn(5)] // the last: every change in the number of digits
	errs := []string{"", "", "", "e1", "e2", "connection refused", "Get \"http://x\": EOF", "500 Internal Server Error",
		"Get \"http://x/a%20b?q=%d\": EOF", "disk 100% full", "dial tcp [fe80::1%lo]:80: connect: invalid argument", "%s %v %!(NOVERB)"}
	if r.Intn(4) == 0 { // many distinct status codes
		codes = nil
		for k, nd := 0, 20+r.Intn(60); k < nd; k++ {
			codes = append(codes, uint16(100+r.Intn(500)))
		}
	}
	if r.Intn(3) == 0 { // many distinct error texts (a different port, address or byte count in each), each recurring
		errs = []string{"", "e1"}
		for k, nd := 0, 10+r.Intn(50); k < nd; k++ {
			errs = append(errs, fmt.Sprintf("dial tcp 10.0.0.%d:%d: connect: connection refused", k, 8000+k))
		}
		for k := 0; k < 6; k++ { // long texts of equal length that differ only in the middle (the same long URL failing on different addresses)
			errs = append(errs, fmt.Sprintf("Get \"http://service.internal.example/api/v2/accounts/0123456789/orders?status=open&page=1\": dial tcp 10.0.0.%d:8080: connect: connection refused by the peer after a long wait in the accept queue of the listener", k))
		}
	}
	span := []int64{1, 1000, 1e9, 3600e9}[r.Intn(4)]
	if r.Intn(8) == 0 {
		// results on both sides of 2262-04-11T23:47:16.854775807Z, the last instant that fits a count of nanoseconds since 1970
		base = time.Unix(0, math.MaxInt64).Add(-time.Duration(span / 2))
	}
	maxLat := int64(math.MaxInt64/2) / int64(n+1)
	out := make([]vegeta.Result, n)
	for i := range out {
		var ts int64
		switch tsMode {
		case 0: // all equal
			ts = 0
		case 1: // increasing with the index
			ts = int64(i) * (span/int64(n) + 1)
		case 2: // few distinct instants
			ts = int64(r.Intn(3)) * span
		default:
			ts = r.Int63n(span + 1)
		}
		var lat int64
		switch latMode {
		case 0:
			lat = 0
		case 1:
			lat = int64(r.Intn(3)) // zeros mixed with tiny values
		case 2:
			lat = r.Int63n(1e9)
		case 3:
			lat = r.Int63n(maxLat) // huge
		default:
			lat = []int64{0, 1, 1e6, 5e9, maxLat}[r.Intn(5)]
		}
		code := codes[r.Intn(len(codes))]
		e := ""
		if code < 200 || code >= 400 || r.Intn(10) == 0 {
			e = errs[r.Intn(len(errs))]
		}
		out[i] = vegeta.Result{Seq: uint64(i), Code: code, Timestamp: base.Add(time.Duration(ts)), Latency: time.Duration(lat),
			BytesIn: uint64(r.Int63n(1 << uint(1+r.Intn(40)))), BytesOut: uint64(r.Int63n(1 << uint(1+r.Intn(20)))), Error: e,
			Attack: "a", Method: "GET", URL: "http://x/"}
	}
	return out
}

func TestDrv_C10(t *testing.T) {
	dir := outDir(t)
	tr := NewTracer(filepath.Join(dir, "c10.ndjson"))
	defer tr.Close()
	r := newRand(10)
	sizes := []int{0, 1, 1, 2, 2, 3, 3, 5, 10, 10, 50, 100, 100, 1000, 1000, 5000}
	rounds := 6
	if thorough() {
		sizes = append(sizes, 20000, 100000, 100000)
		rounds = 40
	}
	multisets, cases, adds, closes := 0, 0, 0, 0
	var samples []any
	var cliOps []map[string]any
	type cliJob struct {
		rs  []vegeta.Result
		out string
	}
	var cliJobs []cliJob
	for round := 0; round < rounds; round++ {
		for _, n := range sizes {
			if n >= 20000 && round > 2 {
				continue
			}
			rs := genMultiset(r, n)
			multisets++
			if len(samples) < 3 && n > 0 && n <= 3 {
				samples = append(samples, rs)
			}
			perms := [][]int{r.Perm(n), r.Perm(n)}
			id, rev := make([]int, n), make([]int, n)
			for i := range id {
				id[i], rev[i] = i, n-1-i
			}
			perms = append(perms, id, rev)
			for pi, perm := range perms {
				if n >= 20000 && pi > 1 {
					continue
				}
				cases++
				tr.Emit("Reset", KV{"n": n, "perm": pi})
				var m vegeta.Metrics
				closeProb := []float64{0, 0.02, 0.5}[r.Intn(3)]
				if r.Intn(3) == 0 { // periodic reporting may close before the first result arrives
					m.Close()
					tr.Emit("Close", closeEvent(&m, "fields"))
					closes++
				}
				for _, idx := range perm {
					m.Add(&rs[idx])
					tr.Emit("Add", addEvent(&rs[idx]))
					adds++
					if r.Float64() < closeProb {
						m.Close()
						tr.Emit("Close", closeEvent(&m, "fields"))
						closes++
					}
				}
				for k := 0; k < 1+r.Intn(2); k++ { // closing repeatedly changes nothing
					m.Close()
					tr.Emit("Close", closeEvent(&m, "fields"))
					closes++
				}
				if pi == 1 { // the text reporter shows the same exact values (rounded ones are not compared)
					var buf bytes.Buffer
					if err := vegeta.NewTextReporter(&m).Report(&buf); err != nil {
						tr.Emit("Panic", KV{"what": "TextReporter", "value": err.Error()})
					} else if kv, err := textReportEvent(buf.String()); err != nil {
						tr.Emit("Panic", KV{"what": "TextReporter output", "value": err.Error()})
					} else {
						tr.Emit("TextReport", kv)
					}
				}
				if pi == 0 { // the JSON reporter shows the same values
					var buf bytes.Buffer
					if err := vegeta.NewJSONReporter(&m).Report(&buf); err != nil {
						tr.Emit("Panic", KV{"what": "JSONReporter", "value": err.Error()})
					} else if kv, err := closeEventJSON(buf.Bytes(), "json-reporter"); err != nil {
						tr.Emit("Panic", KV{"what": "JSONReporter output", "value": err.Error()})
					} else {
						tr.Emit("Close", kv)
						closes++
					}
				}
			}
			// the report command over the same results (gob file, -type=json)
			if n > 0 && n <= 1000 && len(cliJobs) < 12 && os.Getenv("VERIF_MAINDRV") != "" {
				in := filepath.Join(dir, fmt.Sprintf("c10in%d.gob", len(cliJobs)))
				f, err := os.Create(in)
				must(err)
				enc := vegeta.NewEncoder(f)
				for i := range rs {
					must(enc.Encode(&rs[i]))
				}
				f.Close()
				out := filepath.Join(dir, fmt.Sprintf("c10out%d.json", len(cliJobs)))
				cliOps = append(cliOps, map[string]any{"op": "report", "files": []string{in}, "type": "json", "output": out})
				cliJobs = append(cliJobs, cliJob{rs, out})
			}
		}
	}
	// (G) every short history of the model's (timestamp, latency) grid, with every placement of intermediate Close calls
	grid := 0
	if p := os.Getenv("VERIF_CASES"); p != "" {
		base := time.Unix(1600000000, 0)
		must(readNDJSON(p, func(line []byte) error {
			var c struct {
				Adds []struct {
					Ts  int64 `json:"ts"`
					Lat int64 `json:"lat"`
				} `json:"adds"`
			}
			if err := json.Unmarshal(line, &c); err != nil {
				return err
			}
			for _, unit := range []time.Duration{time.Second, 1} {
				for mask := 0; mask < 2<<len(c.Adds); mask++ { // the top bit: a Close before the first addition (a report tick on an empty set)
					cases++
					grid++
					tr.Emit("Reset", KV{"n": len(c.Adds), "perm": "grid", "mask": mask})
					var m vegeta.Metrics
					if mask&(1<<len(c.Adds)) != 0 {
						m.Close()
						tr.Emit("Close", closeEvent(&m, "fields"))
						closes++
					}
					for i, a := range c.Adds {
						res := vegeta.Result{Seq: uint64(i), Code: 200, Timestamp: base.Add(time.Duration(a.Ts) * unit), Latency: time.Duration(a.Lat) * unit}
						m.Add(&res)
						tr.Emit("Add", addEvent(&res))
						adds++
						if mask&(1<<i) != 0 {
							m.Close()
							tr.Emit("Close", closeEvent(&m, "fields"))
							closes++
						}
					}
					m.Close()
					tr.Emit("Close", closeEvent(&m, "fields"))
					closes++
				}
			}
			return nil
		}))
	}
	if len(cliOps) > 0 {
		res, err := runMain(dir, cliOps)
		if err != nil {
			t.Fatal(err)
		}
		for i, j := range cliJobs {
			cases++
			tr.Emit("Reset", KV{"n": len(j.rs), "perm": "cli"})
			for k := range j.rs {
				tr.Emit("Add", addEvent(&j.rs[k]))
			}
			if p, _ := res[i]["panic"].(string); p != "" {
				tr.Emit("Panic", KV{"what": "report", "value": p})
				continue
			}
			if e, _ := res[i]["err"].(string); e != "" {
				tr.Emit("Panic", KV{"what": "report", "value": e})
				continue
			}
			bs, err := os.ReadFile(j.out)
			must(err)
			kv, err := closeEventJSON(bs, "report-command")
			if err != nil {
				tr.Emit("Panic", KV{"what": "report output", "value": err.Error()})
				continue
			}
			tr.Emit("Close", kv)
			closes++
		}
	}
	writeJSON(filepath.Join(dir, "c10.summary.json"), KV{"multisets": multisets, "cases": cases, "adds": adds, "closes": closes,
		"cli_reports": len(cliJobs), "grid_cases": grid, "samples": samples})
}

// textReportEvent reads the exact fields of the text report: request count, byte totals, status codes, error set.
func textReportEvent(rep string) (KV, error) {
	kv := KV{}
	lines := strings.Split(rep, "\n")
	errs := []string{}
	inErrs := false
	field := func(ln string) []string {
		i := strings.LastIndex(ln, "]")
		if i < 0 {
			return nil
		}
		return strings.Fields(strings.ReplaceAll(ln[i+1:], ",", " "))
	}
	for _, ln := range lines {
		switch {
		case inErrs:
			if ln != "" {
				errs = append(errs, ln)
			}
		case strings.HasPrefix(ln, "Requests"):
			f := field(ln)
			if len(f) < 1 {
				return nil, fmt.Errorf("bad line %q", ln)
			}
			n, err := strconv.ParseUint(f[0], 10, 64)
			if err != nil {
				return nil, err
			}
			kv["requests"] = n
		case strings.HasPrefix(ln, "Bytes In"), strings.HasPrefix(ln, "Bytes Out"):
			f := field(ln)
			if len(f) < 1 {
				return nil, fmt.Errorf("bad line %q", ln)
			}
			n, err := strconv.ParseUint(f[0], 10, 64)
			if err != nil {
				return nil, err
			}
			if strings.HasPrefix(ln, "Bytes In") {
				kv["bytes_in"] = Big(n)
			} else {
				kv["bytes_out"] = Big(n)
			}
		case strings.HasPrefix(ln, "Status Codes"):
			codes := [][]int{}
			for _, p := range field(ln) {
				c, cnt, ok := strings.Cut(p, ":")
				ci, e1 := strconv.Atoi(c)
				ni, e2 := strconv.Atoi(cnt)
				if !ok || e1 != nil || e2 != nil {
					return nil, fmt.Errorf("bad status code entry %q", p)
				}
				codes = append(codes, []int{ci, ni})
			}
			kv["codes"] = codes
		case strings.HasPrefix(ln, "Error Set:"):
			inErrs = true
		}
	}
	kv["errors"] = errs
	for _, k := range []string{"requests", "bytes_in", "bytes_out", "codes"} {
		if _, ok := kv[k]; !ok {
			return nil, fmt.Errorf("text report lacks %s", k)
		}
	}
	return kv, nil
}
