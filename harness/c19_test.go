package vh

// C19 driver: renders the flag cases exported by TLC (and random ones) as text,
// applies them through the in-process driver of package main and logs what the
// real flag values stored; spec/cli/FlagsTrace.tla decides.

import (
	"encoding/json"
	"fmt"
	"net"
	"os"
	"path/filepath"
	"sort"
	"strconv"
	"strings"
	"testing"
)

type rateCase struct {
	Shape string `json:"shape"`
	N     int64  `json:"n"`
	M     int64  `json:"m"`
	Unit  string `json:"unit"`
	Dur   string `json:"dur"`
}

var unitNs = map[string]int64{"ns": 1, "us": 1e3, "µs": 1e3, "ms": 1e6, "s": 1e9, "m": 60e9, "h": 3600e9}

func (c rateCase) text() string {
	switch c.Shape {
	case "n":
		return fmt.Sprint(c.N)
	case "n/u":
		return fmt.Sprintf("%d/%s", c.N, c.Unit)
	case "n/mu":
		return fmt.Sprintf("%d/%d%s", c.N, c.M, c.Unit)
	case "0n/mu":
		return fmt.Sprintf("0%d/%d%s", c.N, c.M, c.Unit)
	case "n/du":
		return fmt.Sprintf("%d/%s", c.N, c.Dur)
	case "inf":
		return "infinity"
	case "empty":
		return ""
	case "n/":
		return "5/"
	case "/u":
		return "/s"
	case "word":
		return "fast"
	case "frac":
		return "1.5/s"
	case "n/badunit":
		return "5/2parsec"
	case "n/mu-trailing":
		return "5/2s extra"
	case "n/u/u":
		return "5/s/s"
	}
	return "?"
}

func str(m map[string]any, k string) string { s, _ := m[k].(string); return s }

func setErr(m map[string]any, i int) string {
	sets, _ := m["sets"].([]any)
	if i < 0 {
		i = len(sets) + i
	}
	if i < 0 || i >= len(sets) {
		return "missing"
	}
	s, _ := sets[i].(map[string]any)
	return str(s, "err")
}

// ipv6Loopback reports whether this machine can "connect" a UDP socket to ::1 (no packet is sent).
func ipv6Loopback() bool {
	c, err := net.Dial("udp", "[::1]:53")
	if err != nil {
		return false
	}
	c.Close()
	return true
}

func TestDrv_C19(t *testing.T) {
	dir := outDir(t)
	tr := NewTracer(filepath.Join(dir, "c19.ndjson"))
	defer tr.Close()
	r := newRand(19)
	ipv6 := ipv6Loopback()
	tr.Emit("Reset", nil)
	var cases []rateCase
	must(readNDJSON(os.Getenv("VERIF_CASES"), func(line []byte) error {
		var c rateCase
		if err := json.Unmarshal(line, &c); err != nil {
			return err
		}
		cases = append(cases, c)
		return nil
	}))
	tlcCases := len(cases)
	// random N in a wide integer range with every unit and multiple
	extra := 150
	if thorough() {
		extra = 3000
	}
	units := []string{"ns", "us", "µs", "ms", "s", "m", "h"}
	for i := 0; i < extra; i++ {
		c := rateCase{Shape: []string{"n", "n/u", "n/mu"}[r.Intn(3)], N: r.Int63n(1 << uint(1+r.Intn(40))), M: 1, Unit: "s"}
		if c.Shape != "n" {
			c.Unit = units[r.Intn(len(units))]
		}
		if c.Shape == "n/mu" {
			c.M = 1 + r.Int63n(5000)
		}
		cases = append(cases, c)
	}
	// phase 1: set (after an earlier, different -rate flag half of the time), probe with and without -max-workers
	var ops []map[string]any
	prior := make([]bool, len(cases))
	for i, c := range cases {
		sets := [][2]string{}
		if prior[i] = i%2 == 1; prior[i] {
			sets = append(sets, [2]string{"rate", []string{"9/3m", "100/1m", "7/250ms"}[i%3]})
		}
		sets = append(sets, [2]string{"rate", c.text()})
		ops = append(ops, map[string]any{"op": "flags", "sets": sets, "probe": true})
		ops = append(ops, map[string]any{"op": "flags", "sets": append(append([][2]string{}, sets...), [2]string{"max-workers", "3"}), "probe": true})
	}
	res1, err := runMain(dir, ops)
	if err != nil {
		t.Fatal(err)
	}
	// phase 2: the printed form parses back
	ops = nil
	for i := range cases {
		ops = append(ops, map[string]any{"op": "flags", "sets": [][2]string{{"rate", str(res1[2*i]["strings"].(map[string]any), "rate")}}})
	}
	res2, err := runMain(dir, ops)
	if err != nil {
		t.Fatal(err)
	}
	const guard = "requires setting -max-workers"
	for i, c := range cases {
		a, b, rt := res1[2*i], res1[2*i+1], res2[i]
		per, _ := strconv.ParseInt(str(a, "rate_per"), 10, 64)
		freq, _ := strconv.ParseInt(str(a, "rate_freq"), 10, 64)
		o := KV{"set_err": setErr(a, -1), "freq": freq, "per_div": per / unitNs[c.Unit], "per_mod": per % unitNs[c.Unit],
			"st_freq": str(a, "rate_freq"), "st_per": str(a, "rate_per"), "string": str(a["strings"].(map[string]any), "rate"),
			"guard_without_maxworkers": strings.Contains(str(a, "probe_err"), guard), "guard_with_maxworkers": strings.Contains(str(b, "probe_err"), guard),
			"rt_err": setErr(rt, 0), "rt_freq": str(rt, "rate_freq"), "rt_per": str(rt, "rate_per"), "after_other_rate_flag": prior[i]}
		if p := str(a, "panic") + str(b, "panic") + str(rt, "panic"); p != "" {
			o["set_err"], o["rt_err"] = "panic: "+p, "panic"
			if c.Shape == "n" || c.Shape == "n/u" || c.Shape == "n/mu" || c.Shape == "inf" {
				o["freq"] = -1
			}
		}
		tr.Emit("Rate", KV{"c": c, "text": c.text(), "o": o})
	}

	// headers, max-body, connect-to, dns-ttl, resolvers
	type job struct {
		kind string
		kv   KV
		n    int
	}
	var jobs []job
	ops = nil
	nOther := 40
	if thorough() {
		nOther = 600
	}
	for i := 0; i < nOther; i++ {
		// -header
		nt := 1 + r.Intn(6)
		if i%10 == 3 {
			nt = 20 + r.Intn(20) // many repeated -header flags
		}
		toks := make([]KV, nt)
		sets := make([][2]string, nt)
		for k := range toks {
			key := []string{"X-Key", "x-key", "X-KEY", "Accept", "authorization", "K"}[r.Intn(6)]
			val := []string{"v", "a: b", "text/plain; q=0.9", "0", "Bearer x:y:z"}[r.Intn(5)] + fmt.Sprint(r.Intn(3))
			toks[k] = KV{"key": key, "value": val}
			sets[k] = [2]string{"header", strings.Repeat(" ", r.Intn(2)) + key + strings.Repeat(" ", r.Intn(2)) + ":" + strings.Repeat(" ", r.Intn(3)) + val + strings.Repeat(" ", r.Intn(2))}
		}
		ops = append(ops, map[string]any{"op": "flags", "sets": sets})
		jobs = append(jobs, job{"Header", KV{"toks": toks}, nt})
		// -max-body
		k := r.Intn(6)
		n := []int64{0, 1, 10, 2000, 28, 5}[r.Intn(6)]
		sp := [][]string{{"", "B", "b", " B"}, {"KB", " KB", "kb", "K", " kilobytes", "k", " kilo"}, {"MB", " MB", "mb", "m", " megabytes", " mega"},
			{"GB", " g", "gb", " gigabyte", " gigabytes", "G"}, {"TB", "tB", " terabytes", "t"}, {"PB", " peta", " petabytes", "p"}}[k]
		text := fmt.Sprint(n) + sp[r.Intn(len(sp))]
		if i%8 == 0 {
			text = "-1"
		}
		ops = append(ops, map[string]any{"op": "flags", "sets": [][2]string{{"max-body", text}}})
		jobs = append(jobs, job{"MaxBody", KV{"text": text, "n": n, "k": k, "minus1": text == "-1"}, 1})
		// -connect-to
		ntup := 1 + r.Intn(5)
		if i%10 == 7 {
			ntup = 15 + r.Intn(15)
		}
		tups := make([]KV, ntup)
		sets = make([][2]string, ntup)
		for k := range tups {
			// addresses are taken as written (the dialer looks the URL's address up by exact match): letter case is kept
			src := []string{"a.example:80", "10.0.0.1:443", "localhost:8080", "b.example:80", "LocalHost:8080", "API.Example:80"}[r.Intn(6)]
			dst := []string{"127.0.0.1:6060", "localhost:6061", "10.9.8.7:1", "c.example:443", "Backend-1.example:443"}[r.Intn(5)]
			tups[k] = KV{"src": src, "dst": dst}
			sets[k] = [2]string{"connect-to", src + ":" + dst}
		}
		ops = append(ops, map[string]any{"op": "flags", "sets": sets})
		jobs = append(jobs, job{"ConnectTo", KV{"tups": tups}, ntup})
		// -dns-ttl
		dk := []string{"minus1", "zero", "dur"}[r.Intn(3)]
		du := units[r.Intn(len(units))]
		dn := 1 + r.Int63n(500)
		dtext := map[string]string{"minus1": "-1", "zero": []string{"0", "0s"}[r.Intn(2)], "dur": fmt.Sprintf("%d%s", dn, du)}[dk]
		ops = append(ops, map[string]any{"op": "flags", "sets": [][2]string{{"dns-ttl", dtext}}})
		jobs = append(jobs, job{"DNSTTL", KV{"text": dtext, "kind": dk, "n": dn, "unit": du}, 1})
		// -resolvers (loopback addresses so that the UDP "connection" needs no network)
		na := 1 + r.Intn(4)
		if i%10 == 9 {
			na = 8 + r.Intn(8)
		}
		addrs := make([]KV, na)
		var parts []string
		for k := range addrs {
			ip := fmt.Sprintf("127.0.0.%d", 1+r.Intn(20))
			port := []int{0, 0, 53, 5353, 10053}[r.Intn(5)]
			if ipv6 && r.Intn(3) == 0 { // the only accepted form of an IPv6 server is [ip]:port
				ip, port = "[::1]", []int{53, 5353, 10053}[r.Intn(3)]
			}
			addrs[k] = KV{"ip": ip, "port": port}
			if port == 0 {
				parts = append(parts, ip)
			} else {
				parts = append(parts, fmt.Sprintf("%s:%d", ip, port))
			}
		}
		ops = append(ops, map[string]any{"op": "flags", "sets": [][2]string{{"resolvers", strings.Join(parts, ",")}}})
		jobs = append(jobs, job{"ResolversFlag", KV{"addrs": addrs}, 1})
	}
	for _, bad := range []string{"novalue", "key:", ":value", "", " : "} {
		ops = append(ops, map[string]any{"op": "flags", "sets": [][2]string{{"header", bad}}})
		jobs = append(jobs, job{"BadHeader", KV{"text": bad}, 1})
	}
	res, err := runMain(dir, ops)
	if err != nil {
		t.Fatal(err)
	}
	var resolverOps []map[string]any
	var resolverJobs []KV
	for i, j := range jobs {
		m := res[i]
		errs := []string{}
		for k := 0; k < j.n; k++ {
			errs = append(errs, setErr(m, k))
		}
		if p := str(m, "panic"); p != "" {
			errs = []string{"panic: " + p}
		}
		switch j.kind {
		case "Header", "BadHeader":
			stored := []hdrPair{}
			if h, ok := m["header"].(map[string]any); ok {
				for k, vs := range h {
					hp := hdrPair{Key: k, Values: []string{}}
					for _, v := range vs.([]any) {
						hp.Values = append(hp.Values, fmt.Sprint(v))
					}
					stored = append(stored, hp)
				}
			}
			sort.Slice(stored, func(a, b int) bool { return stored[a].Key < stored[b].Key })
			j.kv["stored"], j.kv["errs"], j.kv["err"] = stored, errs, errs[0]
			tr.Emit(j.kind, j.kv)
		case "MaxBody":
			v, _ := strconv.ParseInt(str(m, "max_body"), 10, 64)
			unit := int64(1) << uint(10*j.kv["k"].(int))
			j.kv["err"], j.kv["stored"], j.kv["div"], j.kv["mod"] = errs[0], str(m, "max_body"), v/unit, v%unit
			tr.Emit("MaxBody", j.kv)
		case "ConnectTo":
			stored := []hdrPair{}
			if h, ok := m["connect_to"].(map[string]any); ok {
				for k, vs := range h {
					hp := hdrPair{Key: k, Values: []string{}}
					for _, v := range vs.([]any) {
						hp.Values = append(hp.Values, fmt.Sprint(v))
					}
					stored = append(stored, hp)
				}
			}
			sort.Slice(stored, func(a, b int) bool { return stored[a].Key < stored[b].Key })
			j.kv["stored"], j.kv["errs"] = stored, errs
			tr.Emit("ConnectTo", j.kv)
		case "DNSTTL":
			v, _ := strconv.ParseInt(str(m, "dns_ttl"), 10, 64)
			u := unitNs[j.kv["unit"].(string)]
			j.kv["err"], j.kv["stored"], j.kv["div"], j.kv["mod"] = errs[0], str(m, "dns_ttl"), v/u, v%u
			tr.Emit("DNSTTL", j.kv)
		case "ResolversFlag":
			// what the flag stored is what the command hands to the resolver: dial through it
			var list []string
			if l, ok := m["resolvers"].([]any); ok {
				for _, x := range l {
					list = append(list, fmt.Sprint(x))
				}
			}
			resolverOps = append(resolverOps, map[string]any{"op": "resolvers", "addrs": list, "dials": 2*len(list) + 1})
			resolverJobs = append(resolverJobs, j.kv)
		}
	}
	for _, bad := range [][]string{{"example.com"}, {"127.0.0.1:notaport"}, {"127.0.0.1:99999"}, {"127.0.0.1", "nothost:53"}, {"[::1"}} {
		resolverOps = append(resolverOps, map[string]any{"op": "resolvers", "addrs": bad, "dials": 1})
		resolverJobs = append(resolverJobs, KV{"bad": true, "text": strings.Join(bad, ",")})
	}
	rres, err := runMain(dir, resolverOps)
	if err != nil {
		t.Fatal(err)
	}
	for i, kv := range resolverJobs {
		m := rres[i]
		e := str(m, "err")
		if p := str(m, "panic"); p != "" {
			e = "panic: " + p
		}
		if kv["bad"] == true {
			tr.Emit("BadResolvers", KV{"text": kv["text"], "err": e})
			continue
		}
		dialed := []KV{}
		if l, ok := m["dialed"].([]any); ok {
			for _, x := range l {
				s := fmt.Sprint(x)
				c := strings.LastIndex(s, ":")
				if c < 0 {
					dialed = append(dialed, KV{"ip": s, "port": -1})
					continue
				}
				p, _ := strconv.Atoi(s[c+1:])
				dialed = append(dialed, KV{"ip": s[:c], "port": p})
			}
		}
		kv["err"], kv["dialed"] = e, dialed
		tr.Emit("Resolvers", kv)
	}
	writeJSON(filepath.Join(dir, "c19.summary.json"), KV{"rate_cases": len(cases), "tlc_cases": tlcCases, "other_flag_cases": len(jobs), "events": tr.N,
		"samples": []any{cases[0].text(), cases[len(cases)-1].text()}})
}
