package vh

// Report-loop driver: the real report command (-type=json, -every) reads a slow
// stream from a named pipe that this process feeds in bursts, with and without
// an interrupt; every JSON document it wrote is logged for
// spec/cli/ReportLoopTrace.tla.

import (
	"bytes"
	"encoding/json"
	"fmt"
	"math"
	"math/rand"
	"os"
	"path/filepath"
	"sort"
	"strconv"
	"syscall"
	"testing"
	"time"

	vegeta "github.com/tsenart/vegeta/v12/lib"
)

func TestDrv_ReportLoop(t *testing.T) {
	dir := outDir(t)
	tr := NewTracer(filepath.Join(dir, "reportloop.ndjson"))
	defer tr.Close()
	r := newRand(77)
	type rcase struct {
		n         int
		codec     codec
		rs        []vegeta.Result
		everyMs   int
		signalMs  int
		fifo, out string
	}
	sizes := []int{1, 2, 5, 40, 200}
	rounds := 2
	if thorough() {
		rounds = 8
	}
	var cs []*rcase
	var ops []map[string]any
	for round := 0; round < rounds; round++ {
		for _, n := range sizes {
			for ci, cd := range codecs {
				c := &rcase{n: n, codec: cd, everyMs: []int{0, 1, 2, 3}[r.Intn(4)]}
				if (round+ci+n)%3 == 0 && n >= 5 {
					c.signalMs = 3 + r.Intn(12)
				}
				for i := 0; i < n; i++ {
					c.rs = append(c.rs, vegeta.Result{Attack: "rl", Seq: uint64(i), Code: []uint16{200, 200, 200, 302, 404, 500, 0}[r.Intn(7)],
						Timestamp: time.Unix(1700000000, int64(i)*1e6), Latency: time.Duration(r.Intn(1e6)), BytesIn: uint64(r.Intn(5000)),
						BytesOut: uint64(r.Intn(300)), Error: []string{"", "", "e1", "e2"}[r.Intn(4)]})
				}
				k := len(cs)
				c.fifo = filepath.Join(dir, fmt.Sprintf("rl%d.fifo", k))
				c.out = filepath.Join(dir, fmt.Sprintf("rl%d.out", k))
				must(syscall.Mkfifo(c.fifo, 0o600))
				if k%3 == 1 { // an output file left over from an earlier run, longer than the new output: it is replaced, not overwritten in place
					must(os.WriteFile(c.out, bytes.Repeat([]byte("stale output of an earlier run\n"), 40000), 0o644))
				}
				op := map[string]any{"op": "report", "files": []string{c.fifo}, "type": "json", "output": c.out, "every": int64(c.everyMs) * int64(time.Millisecond)}
				if c.signalMs > 0 {
					op["signal_ms"] = c.signalMs
				}
				cs = append(cs, c)
				ops = append(ops, op)
			}
		}
	}
	// one feeder per case: it blocks in open until the command opens the pipe, then writes bursts separated by pauses
	for _, c := range cs {
		c := c
		seed := r.Int63()
		go func() {
			fr := rand.New(rand.NewSource(seed))
			w, err := os.OpenFile(c.fifo, os.O_WRONLY, 0)
			if err != nil {
				return
			}
			defer w.Close()
			enc := c.codec.enc(w)
			for i := 0; i < len(c.rs); {
				burst := 1 + fr.Intn(1+len(c.rs)/4)
				for j := 0; j < burst && i < len(c.rs); j, i = j+1, i+1 {
					if enc.Encode(&c.rs[i]) != nil {
						return // the reader went away (interrupted run)
					}
				}
				pause := time.Duration(1+fr.Intn(5)) * time.Millisecond
				if c.signalMs > 0 {
					pause *= 2 // an interrupted run is fed slowly enough for the interrupt to fall inside it
				}
				time.Sleep(pause)
			}
		}()
	}
	res, err := runMain(dir, ops)
	if err != nil {
		t.Fatal(err)
	}
	reports, interrupted := 0, 0
	var samples []any
	for i, c := range cs {
		rows := make([][5]int64, len(c.rs))
		for j, x := range c.rs {
			failed := int64(1)
			if x.Code >= 200 && x.Code < 400 {
				failed = 0
			}
			rows[j] = [5]int64{int64(x.Latency), int64(x.BytesIn), int64(x.BytesOut), int64(x.Code), failed}
		}
		tr.Emit("Reset", KV{"n": c.n, "results": rows, "signalled": c.signalMs > 0, "codec": c.codec.name, "every_ms": c.everyMs})
		data, _ := os.ReadFile(c.out)
		dec := json.NewDecoder(bytes.NewReader(data))
		docs := 0
		for {
			var doc struct {
				Latencies struct {
					Total int64 `json:"total"`
				} `json:"latencies"`
				BytesIn struct {
					Total int64 `json:"total"`
				} `json:"bytes_in"`
				BytesOut struct {
					Total int64 `json:"total"`
				} `json:"bytes_out"`
				Requests    int64            `json:"requests"`
				Success     float64          `json:"success"`
				StatusCodes map[string]int64 `json:"status_codes"`
			}
			if err := dec.Decode(&doc); err != nil {
				break
			}
			docs++
			codes := [][2]int64{}
			for k, v := range doc.StatusCodes {
				code, _ := strconv.Atoi(k)
				codes = append(codes, [2]int64{int64(code), v})
			}
			sort.Slice(codes, func(a, b int) bool { return codes[a][0] < codes[b][0] })
			tr.Emit("Report", KV{"requests": doc.Requests, "lat_total": doc.Latencies.Total, "bin_total": doc.BytesIn.Total, "bout_total": doc.BytesOut.Total,
				"ok": int64(math.Round(doc.Success * float64(doc.Requests))), "codes": codes})
		}
		reports += docs
		e := str(res[i], "err")
		if p := str(res[i], "panic"); p != "" {
			e = "panic: " + p
		}
		if c.signalMs > 0 {
			interrupted++
		}
		tr.Emit("End", KV{"err": e, "documents": docs})
		if len(samples) < 2 && docs > 2 {
			samples = append(samples, KV{"n": c.n, "codec": c.codec.name, "every_ms": c.everyMs, "signal_ms": c.signalMs, "documents": docs})
		}
	}
	writeJSON(filepath.Join(dir, "reportloop.summary.json"), KV{"runs": len(cs), "interrupted": interrupted, "reports": reports, "samples": samples})
}
