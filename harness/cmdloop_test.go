package vh

// Encode/plot loop driver: the real encode and plot commands read a slow stream
// from a named pipe fed in bursts by this process, with and without an
// interrupt; what their output holds is logged for spec/cli/CmdLoopTrace.tla.

import (
	"bytes"
	"fmt"
	"io"
	"math"
	"math/rand"
	"os"
	"path/filepath"
	"syscall"
	"testing"
	"time"

	vegeta "github.com/tsenart/vegeta/v12/lib"
)

func TestDrv_CmdLoop(t *testing.T) {
	dir := outDir(t)
	tr := NewTracer(filepath.Join(dir, "cmdloop.ndjson"))
	defer tr.Close()
	r := newRand(78)
	type lcase struct {
		kind      string
		n         int
		in, to    codec
		rs        []vegeta.Result
		signalMs  int
		fifo, out string
	}
	sizes := []int{1, 2, 5, 40, 200}
	rounds := 2
	if thorough() {
		rounds = 8
	}
	var cs []*lcase
	var ops []map[string]any
	for round := 0; round < rounds; round++ {
		for _, n := range sizes {
			for ci, cd := range codecs {
				for _, kind := range []string{"encode", "plot"} {
					c := &lcase{kind: kind, n: n, in: cd, to: codecs[r.Intn(3)]}
					if (round+ci+n)%3 == 0 && n >= 5 {
						c.signalMs = 3 + r.Intn(12)
					}
					for i := 0; i < n; i++ { // one attack, no errors: the plot has one series; latency (i+1) ms identifies the record
						c.rs = append(c.rs, vegeta.Result{Attack: "cl", Seq: uint64(i), Code: 200, Timestamp: time.Unix(1700000000, int64(i)*1e6),
							Latency: time.Duration(i+1) * time.Millisecond, BytesIn: uint64(r.Intn(5000)), Body: []byte(fmt.Sprint("b", i))})
						if kind == "encode" && i%2 == 1 { // rich records alternate with sparse ones (a failed hit next to a bare success)
							c.rs[i].Code, c.rs[i].BytesIn, c.rs[i].Body = 0, 0, nil
						} else if kind == "encode" {
							c.rs[i].Code, c.rs[i].Error, c.rs[i].BytesOut, c.rs[i].Headers = 503, "503 Service Unavailable", 17, map[string][]string{"X-I": {fmt.Sprint(i)}}
						}
					}
					k := len(cs)
					c.fifo = filepath.Join(dir, fmt.Sprintf("cl%d.fifo", k))
					c.out = filepath.Join(dir, fmt.Sprintf("cl%d.out", k))
					must(syscall.Mkfifo(c.fifo, 0o600))
					if k%3 == 1 { // an output file left over from an earlier run, longer than the new output: it is replaced, not overwritten in place
						must(os.WriteFile(c.out, bytes.Repeat([]byte("stale output of an earlier run\n"), 40000), 0o644))
					}
					op := map[string]any{"op": kind, "files": []string{c.fifo}, "output": c.out}
					if kind == "encode" {
						op["to"] = c.to.name
					} else {
						op["threshold"], op["title"] = 100000, "t"
					}
					if c.signalMs > 0 {
						op["signal_ms"] = c.signalMs
					}
					cs = append(cs, c)
					ops = append(ops, op)
				}
			}
		}
	}
	// encode over a regular input file that ends inside a record (the results of a killed attack): whatever the command
	// reports, its output file holds the complete records before the cut, each whole
	for _, n := range []int{40, 200} {
		for _, cd := range codecs {
			if cd.name == "csv" {
				continue // a CSV line has no frame: cut inside its last column it still reads as a record (outside C09's domain too)
			}
			c := &lcase{kind: "encode", n: n, in: cd, to: codecs[r.Intn(3)], signalMs: -1}
			for i := 0; i < n; i++ {
				c.rs = append(c.rs, vegeta.Result{Attack: "cl", Seq: uint64(i), Code: 200, Timestamp: time.Unix(1700000000, int64(i)*1e6),
					Latency: time.Duration(i+1) * time.Millisecond, BytesIn: uint64(r.Intn(5000)), Body: []byte(fmt.Sprint("b", i)),
					Headers: map[string][]string{"X-K": {fmt.Sprint("v", i)}}})
				if i%2 == 1 {
					c.rs[i].Code, c.rs[i].BytesIn, c.rs[i].Body, c.rs[i].Headers = 0, 0, nil, nil
				}
			}
			data, frames := encodeAll(cd, c.rs)
			last := frames[n-1-r.Intn(n/3)]
			cut := last["start"].(int) + 1 + r.Intn(last["end"].(int)-last["start"].(int)-1)
			c.n = last["id"].(int) - 1 // complete records before the cut
			k := len(cs)
			c.fifo = filepath.Join(dir, fmt.Sprintf("cl%d.cut", k))
			c.out = filepath.Join(dir, fmt.Sprintf("cl%d.out", k))
			must(os.WriteFile(c.fifo, data[:cut], 0o644))
			cs = append(cs, c)
			ops = append(ops, map[string]any{"op": "encode", "files": []string{c.fifo}, "output": c.out, "to": c.to.name})
		}
	}
	// encode over a regular file and a named pipe together (the second one written by another process): every record of both
	for _, n := range []int{8, 60} {
		c := &lcase{kind: "encode", n: n, in: codecs[r.Intn(3)], to: codecs[r.Intn(3)], signalMs: -3}
		var a []vegeta.Result
		for i := 0; i < n; i++ {
			res := vegeta.Result{Attack: "cl", Seq: uint64(i), Code: 200, Timestamp: time.Unix(1700000000, int64(i)*1e6), Latency: time.Duration(i+1) * time.Millisecond,
				Body: []byte(fmt.Sprint("b", i))}
			c.rs = append(c.rs, res)
			if i%2 == 0 {
				a = append(a, res)
			}
		}
		k := len(cs)
		c.out = filepath.Join(dir, fmt.Sprintf("cl%d.out", k))
		c.fifo = filepath.Join(dir, fmt.Sprintf("cl%d.fifo", k))
		must(syscall.Mkfifo(c.fifo, 0o600))
		data, _ := encodeAll(c.in, a)
		reg := filepath.Join(dir, fmt.Sprintf("cl%d.regular", k))
		must(os.WriteFile(reg, data, 0o644))
		cs = append(cs, c)
		ops = append(ops, map[string]any{"op": "encode", "files": []string{reg, c.fifo}, "output": c.out, "to": c.to.name})
	}
	// plot over two regular files in different encodings (the results of one attack split between them): every result once
	for _, n := range []int{7, 60} {
		c := &lcase{kind: "plot", n: n, in: codecs[0], to: codecs[0], signalMs: -2}
		var parts [2][]vegeta.Result
		for i := 0; i < n; i++ {
			res := vegeta.Result{Attack: "cl", Seq: uint64(i), Code: 200, Timestamp: time.Unix(1700000000, int64(i)*1e6), Latency: time.Duration(i+1) * time.Millisecond}
			c.rs = append(c.rs, res)
			j := r.Intn(2)
			parts[j] = append(parts[j], res)
		}
		k := len(cs)
		c.out = filepath.Join(dir, fmt.Sprintf("cl%d.out", k))
		var files []string
		for j, cd := range []codec{codecs[r.Intn(3)], codecs[r.Intn(3)]} {
			if len(parts[j]) == 0 {
				continue
			}
			data, _ := encodeAll(cd, parts[j])
			p := filepath.Join(dir, fmt.Sprintf("cl%d_%d.%s", k, j, cd.name))
			must(os.WriteFile(p, data, 0o644))
			files = append(files, p)
		}
		cs = append(cs, c)
		ops = append(ops, map[string]any{"op": "plot", "files": files, "output": c.out, "threshold": 100000, "title": "a <b> & \"c\""})
	}
	for _, c := range cs {
		c := c
		if c.signalMs < 0 && c.signalMs != -3 {
			continue // a regular file, nothing to feed
		}
		seed := r.Int63()
		go func() {
			fr := rand.New(rand.NewSource(seed))
			w, err := os.OpenFile(c.fifo, os.O_WRONLY, 0)
			if err != nil {
				return
			}
			defer w.Close()
			enc := c.in.enc(w)
			feed := c.rs
			if c.signalMs == -3 { // the pipe carries the odd-numbered records, the regular file next to it the even ones
				feed = nil
				for i := 1; i < len(c.rs); i += 2 {
					feed = append(feed, c.rs[i])
				}
			}
			for i := 0; i < len(feed); {
				burst := 1 + fr.Intn(1+len(feed)/4)
				for j := 0; j < burst && i < len(feed); j, i = j+1, i+1 {
					if enc.Encode(&feed[i]) != nil {
						return // the reader went away (interrupted run)
					}
				}
				pause := time.Duration(1+fr.Intn(5)) * time.Millisecond
				if c.signalMs > 0 {
					pause *= 2
				}
				time.Sleep(pause)
			}
		}()
	}
	res, err := runMain(dir, ops)
	if err != nil {
		t.Fatal(err)
	}
	interrupted, partial := 0, 0
	for i, c := range cs {
		tr.Emit("Reset", KV{"kind": c.kind, "n": c.n, "signalled": c.signalMs > 0, "in": c.in.name, "to": c.to.name, "input_cut_inside_a_record": c.signalMs == -1})
		e := str(res[i], "err")
		if c.signalMs == -1 {
			e = "" // the command may well report the damaged input; the question is what it left in the output file
		}
		if p := str(res[i], "panic"); p != "" {
			e = "panic: " + p
		}
		ids := []int{}
		if c.kind == "encode" {
			if f, err := os.Open(c.out); err == nil {
				dec := c.to.dec(f)
				for {
					var got vegeta.Result
					if err := dec.Decode(&got); err != nil {
						if err != io.EOF {
							e += " output: " + err.Error()
						}
						break
					}
					id := 0
					if int(got.Seq) < len(c.rs) && sameResult(&got, &c.rs[got.Seq]) {
						id = int(got.Seq) + 1
					}
					ids = append(ids, id)
				}
				f.Close()
			} else {
				e += " output: " + err.Error()
			}
		} else {
			page, err := os.ReadFile(c.out)
			if err != nil {
				e += " output: " + err.Error()
			} else if data, _, err := parseHTML(string(page)); err != nil {
				e += " page: " + err.Error()
			} else {
				for _, row := range data { // [elapsed seconds, latency in ms of the one series]
					id := 0
					if len(row) == 2 && !math.IsNaN(row[1]) {
						k := int(math.Round(row[1]))
						if k >= 1 && k <= c.n && math.Abs(row[0]-float64(k-1)/1000) < 1e-9 {
							id = k
						}
					}
					ids = append(ids, id)
				}
			}
		}
		if c.signalMs > 0 {
			interrupted++
			if len(ids) < c.n {
				partial++
			}
		}
		tr.Emit("Out", KV{"ids": ids, "err": e})
	}
	writeJSON(filepath.Join(dir, "cmdloop.summary.json"), KV{"runs": len(cs), "interrupted": interrupted, "interrupted_with_partial_output": partial})
}
