package vh

// Shared plumbing of the drivers: trace writer, BigNat rendering, environment.

import (
	"bufio"
	"encoding/json"
	"fmt"
	"math/rand"
	"os"
	"path/filepath"
	"strconv"
	"sync"
	"testing"
)

// Tracer appends one JSON line per abstract event, under one mutex, so that
// the order of lines is a total order consistent with each goroutine's
// program order.
type Tracer struct {
	mu sync.Mutex
	f  *os.File
	w  *bufio.Writer
	N  int
}

func NewTracer(path string) *Tracer {
	f, err := os.Create(path)
	if err != nil {
		panic(err)
	}
	return &Tracer{f: f, w: bufio.NewWriterSize(f, 1<<20)}
}

type KV map[string]any

func (t *Tracer) Emit(ev string, kv KV) {
	if kv == nil {
		kv = KV{}
	}
	kv["e"] = ev
	bs, err := json.Marshal(kv)
	if err != nil {
		panic(err)
	}
	t.mu.Lock()
	t.w.Write(bs)
	t.w.WriteByte('\n')
	t.N++
	t.mu.Unlock()
}

// Locked runs f under the trace mutex; f may call EmitLocked.
func (t *Tracer) Locked(f func()) {
	t.mu.Lock()
	defer t.mu.Unlock()
	f()
}

func (t *Tracer) EmitLocked(ev string, kv KV) {
	if kv == nil {
		kv = KV{}
	}
	kv["e"] = ev
	bs, err := json.Marshal(kv)
	if err != nil {
		panic(err)
	}
	t.w.Write(bs)
	t.w.WriteByte('\n')
	t.N++
}

func (t *Tracer) Close() {
	t.mu.Lock()
	defer t.mu.Unlock()
	t.w.Flush()
	t.f.Close()
}

// Big renders a natural number as base-10^4 limbs, least significant first
// (the representation of spec/lib/BigNat.tla).
func Big(n uint64) []int {
	out := []int{}
	for n > 0 {
		out = append(out, int(n%10000))
		n /= 10000
	}
	return out
}

func Bigs(ns []uint64) [][]int {
	out := make([][]int, len(ns))
	for i, n := range ns {
		out[i] = Big(n)
	}
	return out
}

func envInt(name string, def int64) int64 {
	if v := os.Getenv(name); v != "" {
		n, err := strconv.ParseInt(v, 10, 64)
		if err == nil {
			return n
		}
	}
	return def
}

func seed() int64    { return envInt("VERIF_SEED", 1) }
func thorough() bool { return os.Getenv("VERIF_TIER") == "thorough" }

func outDir(t *testing.T) string {
	d := os.Getenv("VERIF_OUT")
	if d == "" {
		t.Skip("VERIF_OUT not set: drivers are run by bin/vcheck")
	}
	if err := os.MkdirAll(d, 0o755); err != nil {
		t.Fatal(err)
	}
	return d
}

func outPath(t *testing.T, name string) string { return filepath.Join(outDir(t), name) }

func newRand(salt int64) *rand.Rand { return rand.New(rand.NewSource(seed()*1000003 + salt)) }

// readNDJSON reads a file of JSON lines into generic values.
func readNDJSON(path string, each func(line []byte) error) error {
	f, err := os.Open(path)
	if err != nil {
		return err
	}
	defer f.Close()
	sc := bufio.NewScanner(f)
	sc.Buffer(make([]byte, 1<<20), 1<<26)
	for sc.Scan() {
		if len(sc.Bytes()) == 0 {
			continue
		}
		if err := each(sc.Bytes()); err != nil {
			return err
		}
	}
	return sc.Err()
}

// writeJSON writes v as a JSON file (driver summaries read by bin/vcheck).
func writeJSON(path string, v any) {
	bs, err := json.MarshalIndent(v, "", " ")
	if err != nil {
		panic(err)
	}
	if err := os.WriteFile(path, bs, 0o644); err != nil {
		panic(err)
	}
}

func must(err error) {
	if err != nil {
		panic(err)
	}
}

var _ = fmt.Sprint

func writeFile(path string, bs []byte) error { return os.WriteFile(path, bs, 0o644) }
