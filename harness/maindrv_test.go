package vh

import (
	"encoding/json"
	"fmt"
	"os"
	"os/exec"
	"path/filepath"
)

// runMain runs a script of operations through the in-process driver of package
// main (the test binary built from /repo with -tags verif, path in
// VERIF_MAINDRV) and returns one decoded output object per operation.
func runMain(dir string, ops []map[string]any) ([]map[string]any, error) {
	bin := os.Getenv("VERIF_MAINDRV")
	if bin == "" {
		return nil, fmt.Errorf("VERIF_MAINDRV not set")
	}
	script := filepath.Join(dir, "script.json")
	out := filepath.Join(dir, "script.out")
	bs, _ := json.Marshal(ops)
	if err := os.WriteFile(script, bs, 0o644); err != nil {
		return nil, err
	}
	cmd := exec.Command(bin, "-test.run", "^TestVerifDriver$", "-test.timeout", "20m")
	cmd.Env = append(os.Environ(), "VERIF_SCRIPT="+script, "VERIF_OUT="+out)
	cmd.Dir = dir
	if o, err := cmd.CombinedOutput(); err != nil {
		return nil, fmt.Errorf("main driver: %v: %s", err, o)
	}
	var res []map[string]any
	err := readNDJSON(out, func(line []byte) error {
		var m map[string]any
		if err := json.Unmarshal(line, &m); err != nil {
			return err
		}
		res = append(res, m)
		return nil
	})
	if err == nil && len(res) != len(ops) {
		err = fmt.Errorf("main driver answered %d of %d operations", len(res), len(ops))
	}
	return res, err
}
