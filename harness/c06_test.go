package vh

// C06 driver: runs every case exported by TLC from spec/attack/Hit.tla (and
// random richer ones) through the real Attacker with a fake RoundTripper inside
// the real http.Client (so the redirect logic is real) and recording response
// bodies; logs case and observed outcome for HitTrace.tla.

import (
	"bytes"
	"context"
	"encoding/json"
	"errors"
	"fmt"
	"io"
	"net"
	"net/http"
	"os"
	"path/filepath"
	"reflect"
	"strconv"
	"sync"
	"syscall"
	"testing"
	"time"

	vegeta "github.com/tsenart/vegeta/v12/lib"
)

type hitCase struct {
	Name      string `json:"name"`
	Tgt       string `json:"tgt"`
	Build     string `json:"build"`
	Hdr       string `json:"hdr"`
	ReqBody   int    `json:"reqbody"`
	Chunked   bool   `json:"chunked"`
	Transport string `json:"transport"`
	Chain     int    `json:"chain"`
	Policy    string `json:"policy"`
	Status    int    `json:"status"`
	Size      int    `json:"size"`
	Fault     int    `json:"fault"`
	MaxBody   int    `json:"maxbody"`
	Rstatus   int    `json:"rstatus"`
}

type recBody struct {
	data   []byte
	pos    int
	fault  int // fail after this many bytes, -1 never
	closed bool
	ended  bool // saw EOF or the error
	mu     sync.Mutex
}

func (b *recBody) Read(p []byte) (int, error) {
	b.mu.Lock()
	defer b.mu.Unlock()
	if b.fault >= 0 && b.pos >= b.fault && b.fault < len(b.data) {
		b.ended = true
		if b.fault%2 == 0 { // the error net/http itself reports for a body that ends before its announced length
			return 0, io.ErrUnexpectedEOF
		}
		return 0, errors.New("scripted body read failure")
	}
	if b.pos >= len(b.data) {
		b.ended = true
		return 0, io.EOF
	}
	end := len(b.data)
	if b.fault >= 0 && b.fault < end {
		end = b.fault
	}
	if len(p) > 2 {
		p = p[:2] // short reads
	}
	n := copy(p, b.data[b.pos:end])
	b.pos += n
	return n, nil
}

func (b *recBody) Close() error { b.mu.Lock(); b.closed = true; b.mu.Unlock(); return nil }

type hitRT struct {
	c        *hitCase
	calls    int
	first    *http.Request
	firstBuf []byte
	bodies   []*recBody
	respHdr  http.Header
	payload  []byte
	lastLen  int  // body length of the most recent request
	warm     bool // the next exchange is the one before the observed one: a 200 whose body fails after five bytes
}

var errorCases int

func (rt *hitRT) RoundTrip(req *http.Request) (*http.Response, error) {
	if rt.warm {
		rt.warm = false
		if req.Body != nil {
			_, _ = io.Copy(io.Discard, req.Body)
			req.Body.Close()
		}
		return &http.Response{Status: "200 OK", StatusCode: 200, Proto: "HTTP/1.1", ProtoMajor: 1, ProtoMinor: 1, Header: http.Header{}, Request: req,
			ContentLength: -1, Body: &recBody{data: []byte("WWWWWWWWWWWW"), fault: 5}}, nil
	}
	rt.calls++
	rt.lastLen = 0
	if req.Body != nil {
		buf, _ := io.ReadAll(req.Body)
		req.Body.Close()
		rt.lastLen = len(buf)
		if rt.calls == 1 {
			rt.firstBuf = buf
		}
	}
	if rt.calls == 1 {
		rt.first = req
	}
	if rt.c.Transport == "error" {
		// the ways a transport fails, in turn: a plain error, the peer closing the connection before any answer (EOF), in the
		// middle of one, a refused connection, a deadline
		errorCases++ // (taken in turn over the cases that fail this way, whatever their place in the list)
		switch errorCases % 5 {
		case 1:
			return nil, io.EOF
		case 2:
			return nil, io.ErrUnexpectedEOF
		case 3:
			return nil, &net.OpError{Op: "dial", Net: "tcp", Err: os.NewSyscallError("connect", syscall.ECONNREFUSED)}
		case 4:
			return nil, context.DeadlineExceeded
		}
		return nil, errors.New("scripted transport failure")
	}
	mk := func(code int, hdr http.Header, b *recBody) *http.Response {
		rt.bodies = append(rt.bodies, b)
		return &http.Response{Status: fmt.Sprintf("%d %s", code, http.StatusText(code)), StatusCode: code, Proto: "HTTP/1.1", ProtoMajor: 1, ProtoMinor: 1,
			Header: hdr, Body: b, Request: req, ContentLength: -1}
	}
	if rt.calls <= rt.c.Chain {
		code := rt.c.Rstatus
		if code == 0 {
			code = 302
		}
		return mk(code, http.Header{"Location": {fmt.Sprintf("http://verif.invalid/hop%d", rt.calls)}}, &recBody{fault: -1}), nil
	}
	return mk(rt.c.Status, rt.respHdr, &recBody{data: rt.payload, fault: rt.c.Fault}), nil
}

func runHitCase(c *hitCase, seed int64) KV {
	if c.Rstatus == 0 {
		c.Rstatus = 302 // cases drawn by the driver leave the kind of redirect open
		if c.Chain > 0 && seed%3 == 0 {
			c.Rstatus = []int{301, 303, 307, 308}[seed%4]
		}
	}
	payload := make([]byte, c.Size)
	for i := range payload {
		payload[i] = byte('a' + (int(seed)+i)%26)
	}
	rt := &hitRT{c: c, payload: payload, respHdr: http.Header{"Content-Type": {"text/x"}, "X-Multi": {"1", "2"}}}
	opts := []func(*vegeta.Attacker){vegeta.Workers(1), vegeta.MaxWorkers(1), vegeta.MaxBody(int64(c.MaxBody)), vegeta.ChunkedBody(c.Chunked)}
	// the Client option replaces the whole client, so the redirect policy goes after it
	opts = append(opts, vegeta.Client(&http.Client{Transport: rt}))
	switch c.Policy {
	case "nofollow":
		opts = append(opts, vegeta.Redirects(vegeta.NoFollow))
	case "n0":
		opts = append(opts, vegeta.Redirects(0))
	case "n1":
		opts = append(opts, vegeta.Redirects(1))
	default:
		opts = append(opts, vegeta.Redirects(10))
	}
	tgt := vegeta.Target{Method: "POST", URL: "http://verif.invalid/path?q=1"}
	switch c.Build {
	case "badmethod":
		tgt.Method = "BAD METHOD"
	case "badurl":
		tgt.URL = "http://verif.invalid/%zz"
	}
	if c.ReqBody > 0 {
		tgt.Body = bytes.Repeat([]byte("r"), c.ReqBody)
	}
	switch c.Hdr {
	case "case":
		tgt.Header = http.Header{"x-lower": {"1"}, "X-Lower": {"2"}, "X-LOWER": {"3"}}
	case "repeat":
		tgt.Header = http.Header{"X-Rep": {"a", "b", "a"}, "accept": {"*/*"}}
	case "host":
		tgt.Header = http.Header{"Host": {"virtual.example"}, "X-One": {"1"}}
	}
	if tgt.Header != nil && seed%3 == 0 {
		// a target recorded from an earlier run carries that run's attack and sequence headers: the request still gets this
		// run's ("plus the attack-name and sequence-number headers that match the result")
		tgt.Header["X-Vegeta-Seq"] = []string{"41"}
		if c.Name != "" {
			tgt.Header["X-Vegeta-Attack"] = []string{"yesterday"}
		}
	}
	targeter := vegeta.Targeter(func(t *vegeta.Target) error {
		if c.Tgt == "err" {
			return errors.New("scripted targeter failure")
		}
		*t = tgt
		return nil
	})
	if c.Tgt == "ok" && c.Build == "ok" && seed%2 == 1 {
		// the same target through the library's JSON targeter, which fills in the Target it is handed (and so depends on
		// that Target being a fresh one for every hit)
		var doc bytes.Buffer
		must(vegeta.NewJSONTargetEncoder(&doc).Encode(&tgt))
		targeter = vegeta.NewJSONTargeter(&doc, nil, nil)
	}
	atk := vegeta.NewAttacker(opts...)
	calls := 0
	// every fourth case the Attacker has an exchange behind it whose body failed midway (one worker: the observed hit comes
	// second); what the observed hit reports is its own exchange all the same
	before := 0
	if seed%4 == 2 && c.Tgt == "ok" && c.Build == "ok" {
		before, rt.warm = 1, true
	}
	pacer := stopAfter{&calls, 1 + before}
	var res *vegeta.Result
	n := 0
	done := make(chan struct{})
	go func() {
		for r := range atk.Attack(targeter, pacer, 0, c.Name) {
			if n == before {
				res = r
			}
			n++
		}
		close(done)
	}()
	select {
	case <-done:
	case <-time.After(20 * time.Second):
		return KV{"hung": true}
	}
	if res == nil {
		return KV{"hung": true}
	}
	n -= before
	o := KV{"results": n, "method_url_ok": res.Method == tgt.Method && res.URL == tgt.URL, "attack_ok": res.Attack == c.Name, "seq_ok": res.Seq == uint64(before),
		"code": int(res.Code), "err_empty": res.Error == "", "body_len": len(res.Body), "body_prefix_ok": bytes.HasPrefix(payload, res.Body) || len(res.Body) == 0,
		"bytes_in": res.BytesIn, "bytes_out": res.BytesOut, "error": res.Error,
		"headers_ok": reflect.DeepEqual(res.Headers, rt.respHdr) || (c.Policy == "nofollow" && c.Chain > 0 && res.Headers.Get("Location") != "")}
	o["req_seen"], o["last_req_body_len"] = rt.first != nil, rt.lastLen
	if rq := rt.first; rq != nil {
		o["req_method_url_ok"] = rq.Method == tgt.Method && rq.URL.String() == tgt.URL
		o["req_body_len"], o["req_body_ok"] = len(rt.firstBuf), bytes.Equal(rt.firstBuf, tgt.Body)
		caseOK := true
		for k, vs := range tgt.Header {
			if k == "X-Vegeta-Seq" || k == "X-Vegeta-Attack" {
				continue // checked below
			}
			if !reflect.DeepEqual(rq.Header[k], vs) {
				caseOK = false
			}
		}
		for k := range rq.Header {
			if _, own := tgt.Header[k]; !own && k != "X-Vegeta-Seq" && k != "X-Vegeta-Attack" {
				caseOK = false // a header the target did not have
			}
		}
		o["req_header_case_ok"] = caseOK
		o["req_host_ok"] = rq.Host == "virtual.example"
		o["req_seq_hdr_ok"] = rq.Header.Get("X-Vegeta-Seq") == strconv.FormatUint(res.Seq, 10)
		switch v, ok := rq.Header["X-Vegeta-Attack"]; {
		case !ok:
			o["req_attack_hdr"] = "absent"
		case len(v) == 1 && v[0] == c.Name:
			o["req_attack_hdr"] = "match"
		default:
			o["req_attack_hdr"] = "mismatch"
		}
		chunked := false
		for _, te := range rq.TransferEncoding {
			if te == "chunked" {
				chunked = true
			}
		}
		o["req_chunked"] = chunked
	}
	closed, drained := true, true
	for _, b := range rt.bodies {
		b.mu.Lock()
		closed = closed && b.closed
		drained = drained && b.ended
		b.mu.Unlock()
	}
	o["bodies_closed"], o["bodies_drained"], o["bodies"] = closed, drained, len(rt.bodies)
	return o
}

type stopAfter struct {
	calls *int
	n     int
}

func (p stopAfter) Pace(time.Duration, uint64) (time.Duration, bool) {
	*p.calls++
	return 0, *p.calls > p.n
}
func (p stopAfter) Rate(time.Duration) float64 { return 0 }

func TestDrv_C06(t *testing.T) {
	dir := outDir(t)
	tr := NewTracer(filepath.Join(dir, "c06.ndjson"))
	defer tr.Close()
	r := newRand(6)
	tr.Emit("Reset", nil)
	var cases []hitCase
	must(readNDJSON(os.Getenv("VERIF_CASES"), func(line []byte) error {
		var c hitCase
		if err := json.Unmarshal(line, &c); err != nil {
			return err
		}
		cases = append(cases, c)
		return nil
	}))
	tlc := len(cases)
	// the quick tier samples the response-side product (every 3rd case at a seed-dependent offset) and runs all others
	take, off := 3, int(seed()%3)
	if thorough() {
		take = 1
	}
	// (T) random richer cases: large bodies, limits around the size
	extra := 300
	if thorough() {
		extra = 5000
	}
	for i := 0; i < extra; i++ {
		sz := []int{0, 1, 100, 4096, 70000}[r.Intn(5)]
		c := hitCase{Name: []string{"", "n"}[r.Intn(2)], Tgt: "ok", Build: "ok", Hdr: []string{"none", "case", "repeat", "host"}[r.Intn(4)], ReqBody: []int{0, 3, 5000}[r.Intn(3)],
			Chunked: r.Intn(2) == 0, Transport: "response", Chain: r.Intn(3), Policy: []string{"nofollow", "n0", "n1", "n10"}[r.Intn(4)],
			Status: 100 + r.Intn(500), Size: sz, Fault: -1, MaxBody: []int{-1, 0, sz / 2, sz, sz + 1, 1 << 20}[r.Intn(6)]}
		if r.Intn(4) == 0 {
			c.Fault = r.Intn(sz + 1)
		}
		cases = append(cases, c)
	}
	ran := 0
	var samples []any
	for i := range cases {
		c := &cases[i]
		resp := i < tlc && c.Tgt == "ok" && c.Build == "ok" && c.Transport == "response" && c.Name == "n" && c.Hdr == "none" && c.ReqBody == 0 && !c.Chunked
		if resp && (i+off)%take != 0 {
			continue
		}
		o := runHitCase(c, int64(i))
		ran++
		if o["hung"] == true {
			tr.Emit("Hung", KV{"c": c})
			continue
		}
		tr.Emit("Hit", KV{"c": c, "o": o})
		if len(samples) < 2 && c.Chain > 0 {
			samples = append(samples, KV{"case": c, "observed": o})
		}
	}
	writeJSON(filepath.Join(dir, "c06.summary.json"), KV{"tlc_cases": tlc, "cases_run": ran, "random_cases": extra, "events": tr.N, "samples": samples})
}
