package vh

// Pump driver (C02, CLI anchor): scripted runs of the real processAttack through the in-process driver of
// package main (op "pump"); spec/attack/PumpTrace.tla compares each outcome with Pump!Expected.

import (
	"path/filepath"
	"sort"
	"testing"
)

func TestDrv_Pump(t *testing.T) {
	dir := outDir(t)
	tr := NewTracer(filepath.Join(dir, "pump.ndjson"))
	defer tr.Close()
	maxLen := 4
	if thorough() {
		maxLen = 5
	}
	alphabet := []string{"result", "signal", "close", "encfail"}
	var scripts [][]string
	var rec func(prefix []string)
	rec = func(prefix []string) {
		if len(prefix) > 0 {
			scripts = append(scripts, append([]string{}, prefix...))
		}
		if len(prefix) == maxLen || (len(prefix) > 0 && prefix[len(prefix)-1] == "close") {
			return
		}
		for _, a := range alphabet {
			rec(append(prefix, a))
		}
	}
	rec(nil)
	if !thorough() { // quick: every 2nd script at a seed-dependent offset
		var pick [][]string
		for i, s := range scripts {
			if (i+int(seed()))%2 == 0 {
				pick = append(pick, s)
			}
		}
		scripts = pick
	}
	run := func(idx []int) []map[string]any {
		ops := make([]map[string]any, len(idx))
		for k, i := range idx {
			ops[k] = map[string]any{"op": "pump", "steps": scripts[i]}
		}
		res, err := runMain(dir, ops)
		if err != nil {
			t.Fatal(err)
		}
		return res
	}
	all := make([]int, len(scripts))
	for i := range all {
		all[i] = i
	}
	out := run(all)
	// a pump that had not returned within the driver's 20 ms grace period is observed again (twice at most): a
	// late wake-up of its goroutine must not look like a pump that never returns
	for attempt := 0; attempt < 2; attempt++ {
		var again []int
		for i, m := range out {
			if ret, _ := m["returned"].(bool); !ret {
				again = append(again, i)
			}
		}
		if len(again) == 0 {
			break
		}
		for k, m := range run(again) {
			if ret, _ := m["returned"].(bool); ret {
				out[again[k]] = m
			}
		}
	}
	tr.Emit("Reset", nil)
	for i, m := range out {
		enc := []int{}
		if l, ok := m["encoded"].([]any); ok {
			for _, x := range l {
				enc = append(enc, int(x.(float64)))
			}
		}
		ret, _ := m["returned"].(bool)
		first, _ := m["stop_first"].(bool)
		e, _ := m["err"].(string)
		if p, _ := m["panic"].(string); p != "" {
			e = "panic: " + p
		}
		tr.Emit("Pump", KV{"steps": scripts[i], "encoded": enc, "returned": ret, "err": e, "stop_first": first})
	}
	// the real attack behind the real pump: a signal while the attack is pacing, while it is winding down with hits
	// still in flight, no signal at all, and two signals
	var aops []map[string]any
	type apCase struct{ hits, workers, latency, signalMs, signals, durationMs int }
	var acases []apCase
	for _, c := range []apCase{{4, 2, 120, 0, 0, 0}, {4, 2, 120, 30, 1, 0}, {4, 2, 120, 170, 1, 0}, {2, 2, 150, 60, 1, 0}, {6, 3, 100, 140, 1, 0}, {4, 2, 120, 150, 2, 0}, {1, 1, 100, 40, 1, 0},
		// the attack ends because its duration is over while hits are still in flight; one signal arrives in that window
		{hits: 1000, workers: 2, latency: 150, signalMs: 220, signals: 1, durationMs: 40}, {hits: 1000, workers: 3, latency: 120, signalMs: 170, signals: 1, durationMs: 30},
		{hits: 1000, workers: 2, latency: 100, signalMs: 0, signals: 0, durationMs: 30}} {
		acases = append(acases, c)
		aops = append(aops, map[string]any{"op": "attackpump", "hits": c.hits, "workers": c.workers, "latency_ms": c.latency, "signal_ms": c.signalMs, "signals": c.signals, "duration_ms": c.durationMs})
	}
	ares, err := runMain(dir, aops)
	if err != nil {
		t.Fatal(err)
	}
	for i, m := range ares {
		enc := []int{}
		if l, ok := m["encoded"].([]any); ok {
			for _, x := range l {
				enc = append(enc, int(x.(float64)))
			}
		}
		sort.Ints(enc)
		started, _ := m["started"].(float64)
		ret, _ := m["returned"].(bool)
		e, _ := m["err"].(string)
		if p, _ := m["panic"].(string); p != "" {
			e = "panic: " + p
		}
		c := acases[i]
		tr.Emit("AttackPump", KV{"hits": c.hits, "workers": c.workers, "latency_ms": c.latency, "signal_ms": c.signalMs, "signals": c.signals, "duration_ms": c.durationMs,
			"started": int(started), "encoded": enc, "returned": ret, "err": e})
	}
	writeJSON(filepath.Join(dir, "pump.summary.json"), KV{"scripts": len(scripts), "max_len": maxLen, "attack_pump_runs": len(acases)})
}
