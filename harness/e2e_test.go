package vh

// End-to-end driver of the attack command: every case of spec/cli/AttackCmd.tla
// (exported by TLC) and random further flag combinations run the real command
// against the loopback server of the main-package driver (op "e2e"); the case,
// what the server saw and the decoded output file are logged for
// spec/cli/AttackCmdTrace.tla.

import (
	"bytes"
	"crypto/ecdsa"
	"crypto/elliptic"
	crand "crypto/rand"
	"crypto/x509"
	"crypto/x509/pkix"
	"encoding/base64"
	"encoding/json"
	"encoding/pem"
	"fmt"
	"io"
	"math/big"
	"net"
	"net/url"
	"os"
	"path/filepath"
	"sort"
	"strconv"
	"strings"
	"sync"
	"syscall"
	"testing"
	"time"

	"github.com/miekg/dns"
	vegeta "github.com/tsenart/vegeta/v12/lib"
)

type cmdCase struct {
	Server     string `json:"server"`
	Trust      string `json:"trust"`
	Format     string `json:"format"`
	Lazy       bool   `json:"lazy"`
	Bad        string `json:"bad"`
	Rate       int    `json:"rate"`
	MaxW       int    `json:"maxw"`
	Workers    int    `json:"workers"`
	Name       string `json:"name"`
	Hdr        bool   `json:"hdr"`
	Body       bool   `json:"body"`
	Chunked    bool   `json:"chunked"`
	MaxBody    int    `json:"maxbody"`
	Redirects  string `json:"redirects"`
	KeepAlive  bool   `json:"keepalive"`
	Timeout    string `json:"timeout"`
	ConnectTo  bool   `json:"connectto"`
	LAddr      bool   `json:"laddr"`
	Prom       bool   `json:"prom"`
	MaxConn    int    `json:"maxconn"`
	Hosts      int    `json:"hosts"`
	HTTP2      bool   `json:"http2"`
	H2C        bool   `json:"h2c"`
	HostHdr    bool   `json:"hosthdr"`
	Stall      bool   `json:"stall"`
	Head       bool   `json:"head"`
	Lookup     bool   `json:"lookup"`
	ClientCert string `json:"clientcert"` // "none" | "pair" (-cert and -key) | "onefile" (-cert holding both)
	Tickets    bool   `json:"tickets"`
	DNSDest    string `json:"dnsdest"` // "none" | "forever" | "off": the -connect-to destination is a name served by e2eDNS
}

// e2eDNS is the address of the driver's DNS server (given to the command with -resolvers); e2eDNSQueries counts the
// address (A) queries it received per name.
var (
	e2eDNS        string
	e2eDNSMu      sync.Mutex
	e2eDNSQueries = map[string]int{}
	e2eDNSFirst   = map[string]time.Time{} // when a name was first asked for
)

const e2eDNSLife = 300 * time.Millisecond // names with a label "expire" stop resolving this long after they were first asked for

func startE2EDNS(t *testing.T) {
	h := dns.HandlerFunc(func(w dns.ResponseWriter, r *dns.Msg) {
		m := &dns.Msg{}
		m.SetReply(r)
		if len(r.Question) == 1 {
			q := r.Question[0]
			name := strings.ToLower(q.Name)
			if !strings.HasSuffix(name, ".dest.test.") {
				m.SetRcode(r, dns.RcodeNameError)
			} else if q.Qtype == dns.TypeA {
				e2eDNSMu.Lock()
				e2eDNSQueries[name]++
				first, seen := e2eDNSFirst[name]
				if !seen {
					first = time.Now()
					e2eDNSFirst[name] = first
				}
				e2eDNSMu.Unlock()
				if strings.Contains(name, ".expire.") && time.Since(first) > e2eDNSLife {
					m.SetRcode(r, dns.RcodeNameError) // the name is gone: 300 ms after it was first asked for
					_ = w.WriteMsg(m)
					return
				}
				m.Answer = append(m.Answer, &dns.A{Hdr: dns.RR_Header{Name: q.Name, Rrtype: dns.TypeA, Class: dns.ClassINET, Ttl: 60}, A: net.IPv4(127, 0, 0, 1).To4()})
			} // any other type: the name exists, no such record
		}
		_ = w.WriteMsg(m)
	})
	started := make(chan struct{})
	srv := &dns.Server{Addr: "127.0.0.1:0", Net: "udp", Handler: h, NotifyStartedFunc: func() { close(started) }}
	go func() { _ = srv.ListenAndServe() }()
	select {
	case <-started:
	case <-time.After(5 * time.Second):
		t.Fatal("the driver's DNS server did not start")
	}
	e2eDNS = srv.PacketConn.LocalAddr().String()
}

// clientCertPEM is a self-signed client certificate and its key, made once.
var clientCertPEM = sync.OnceValues(func() (string, string) {
	key, err := ecdsa.GenerateKey(elliptic.P256(), crand.Reader)
	must(err)
	tmpl := &x509.Certificate{SerialNumber: big.NewInt(1), Subject: pkix.Name{CommonName: "vegeta e2e client"}, NotBefore: time.Now().Add(-time.Hour),
		NotAfter: time.Now().Add(24 * time.Hour), KeyUsage: x509.KeyUsageDigitalSignature, ExtKeyUsage: []x509.ExtKeyUsage{x509.ExtKeyUsageClientAuth}}
	der, err := x509.CreateCertificate(crand.Reader, tmpl, tmpl, &key.PublicKey, key)
	must(err)
	kder, err := x509.MarshalECPrivateKey(key)
	must(err)
	return string(pem.EncodeToMemory(&pem.Block{Type: "CERTIFICATE", Bytes: der})), string(pem.EncodeToMemory(&pem.Block{Type: "EC PRIVATE KEY", Bytes: kder}))
})

func (c cmdCase) dnsName(dir string) string {
	if c.DNSDest == "expire" {
		return filepath.Base(dir) + ".expire.dest.test"
	}
	return filepath.Base(dir) + ".dest.test"
}

func (c cmdCase) valid() bool {
	if c.Tickets && c.Server != "tls" && c.Server != "tls2" && c.Server != "mtls" {
		return false
	}
	if c.ClientCert != "none" && c.Server != "tls" && c.Server != "mtls" {
		return false
	}
	if (c.Server == "tls" || c.Server == "tls2" || c.Server == "mtls") != (c.Trust != "na") {
		return false
	}
	if c.H2C && c.Server != "h2c" {
		return false
	}
	if c.Prom && !(c.Lazy && c.MaxW == 1 && c.Trust != "none" && c.Bad == "none" && c.Timeout == "default") {
		return false
	}
	if c.Server == "unix" && (c.ConnectTo || c.LAddr) {
		return false
	}
	if c.ConnectTo && (c.H2C || (c.Server != "plain" && c.Server != "h2c")) {
		return false
	}
	if c.Hosts == 2 && !c.ConnectTo {
		return false
	}
	if c.Timeout == "short" && c.MaxConn != 0 {
		return false
	}
	if c.Rate == 2 && c.Lazy {
		return false
	}
	if c.Head && c.Body {
		return false
	}
	if c.Lookup && (c.Server != "plain" || c.ConnectTo || c.LAddr || c.HostHdr) {
		return false
	}
	if c.DNSDest != "none" && !(c.ConnectTo && c.Server == "plain" && c.Hosts == 1 && !c.KeepAlive && !c.LAddr && c.Timeout == "default" && c.MaxConn == 0) {
		return false
	}
	return true
}

const e2eK = 7

func (c cmdCase) slowList() bool { return c.Rate == 0 && !c.Lazy }

func (c cmdCase) pathOf(i int) string {
	if c.Stall {
		return "/size/100000/" + strconv.Itoa(i)
	}
	if c.slowList() {
		return "/slow/20/" + strconv.Itoa(i)
	}
	switch i {
	case 2:
		return "/echo"
	case 3:
		return "/size/5"
	case 4:
		return "/redirect/1"
	case 5:
		return "/status/404"
	case 6:
		if c.Timeout == "short" {
			return "/slow/800"
		}
	case 7:
		if c.Prom {
			return "/promwait/6"
		}
	}
	return "/ok/" + strconv.Itoa(i)
}

// op builds the driver operation: flags and the files they name.
func (c cmdCase) op(dir string) map[string]any {
	var doc strings.Builder
	for i := 1; i <= e2eK; i++ {
		base := "{{URL}}"
		if c.Lookup {
			base = "http://localhost:{{PORT}}"
		}
		if c.ConnectTo {
			base = "http://E2E.invalid:{{PORT}}"
			if c.Hosts == 2 && i%2 == 0 {
				base = "http://E2Eb.invalid:{{PORT}}"
			}
		}
		method, own := "GET", !c.slowList() && !c.Stall && i == 2
		if own {
			method = "POST"
		}
		if c.Head && !c.slowList() && !c.Stall && i == 3 {
			method = "HEAD"
		}
		if c.Format == "http" {
			fmt.Fprintf(&doc, "%s %s%s\n", method, base, c.pathOf(i))
			if own {
				doc.WriteString("@{{DIR}}/own.txt\n")
			}
			if !c.slowList() && !c.Stall && i == 5 {
				doc.WriteString("X-Own: 1\n")
			}
			doc.WriteString("\n")
		} else {
			t := map[string]any{"method": method, "url": base + c.pathOf(i)}
			if own {
				t["body"] = base64.StdEncoding.EncodeToString([]byte("own"))
			}
			if !c.slowList() && !c.Stall && i == 5 {
				t["header"] = map[string][]string{"X-Own": {"1"}}
			}
			bs, _ := json.Marshal(t)
			doc.Write(bs)
			doc.WriteString("\n")
		}
	}
	if c.Bad == "late" {
		if c.Format == "http" {
			doc.WriteString("GET\n")
		} else {
			doc.WriteString("{\"method\":\"GET\"}\n")
		}
	}
	args := []string{"-targets", "{{DIR}}/targets.txt", "-format", c.Format, "-output", "{{DIR}}/out.bin", "-rate", strconv.Itoa(c.Rate),
		"-max-workers", strconv.Itoa(c.MaxW), "-workers", strconv.Itoa(c.Workers), "-max-body", strconv.Itoa(c.MaxBody)}
	if c.Lazy {
		args = append(args, "-lazy", "-duration", "2s") // the end of the list stops the attack long before; the bound only keeps a run finite
	} else if c.DNSDest == "expire" {
		args = append(args, "-duration", "3s")
	} else if c.Stall {
		args = append(args, "-duration", "1200ms", "-timeout", "100ms")
	} else {
		args = append(args, "-duration", "100ms")
	}
	if c.Name != "" {
		args = append(args, "-name", c.Name)
	}
	if c.Hdr {
		args = append(args, "-header", "X-Flag: a", "-header", "x-flag: b")
	}
	if c.HostHdr {
		args = append(args, "-header", "Host: virtual.example")
	}
	if c.Body {
		args = append(args, "-body", "{{DIR}}/dflt.txt")
	}
	if c.Chunked {
		args = append(args, "-chunked")
	}
	if c.Redirects == "nofollow" {
		args = append(args, "-redirects", "-1")
	}
	if c.Redirects == "zero" {
		args = append(args, "-redirects", "0")
	}
	if !c.KeepAlive {
		args = append(args, "-keepalive=false")
	}
	if c.Timeout == "short" {
		args = append(args, "-timeout", "50ms")
	}
	if c.DNSDest != "none" {
		// the mapped destination is a name, to be looked up through -resolvers under the -dns-ttl policy
		args = append(args, "-connect-to", "E2E.invalid:{{PORT}}:"+c.dnsName(dir)+":{{PORT}}", "-resolvers", e2eDNS)
		if c.DNSDest == "expire" {
			args = append(args, "-dns-ttl", "100ms")
		}
		if c.DNSDest == "chain" {
			// a second tuple whose source is the first one's destination: the mapping is applied once, not followed along
			args = append(args, "-connect-to", c.dnsName(dir)+":{{PORT}}:127.0.0.1:1")
		}
		if c.DNSDest == "off" {
			args = append(args, "-dns-ttl", "-1")
		}
	} else if c.ConnectTo {
		args = append(args, "-connect-to", "E2E.invalid:{{PORT}}:{{ADDR}}")
		if c.Hosts == 2 {
			args = append(args, "-connect-to", "E2Eb.invalid:{{PORT}}:{{ADDR}}")
		}
	}
	if c.MaxConn > 0 {
		args = append(args, "-max-connections", strconv.Itoa(c.MaxConn))
	}
	if c.Lookup {
		args = append(args, "-dns-ttl", "1us")
	}
	if !c.HTTP2 {
		args = append(args, "-http2=false")
	}
	if c.H2C {
		args = append(args, "-h2c")
	}
	if c.LAddr {
		args = append(args, "-laddr", "127.0.0.2")
	}
	if c.Prom {
		args = append(args, "-prometheus-addr", "{{PROM}}")
	}
	switch c.Trust {
	case "insecure":
		args = append(args, "-insecure")
	case "rootcert":
		args = append(args, "-root-certs", "{{CERT}}")
	}
	if c.Server == "unix" {
		args = append(args, "-unix-socket", "{{SOCK}}")
	}
	if c.Tickets {
		args = append(args, "-session-tickets")
	}
	switch c.ClientCert {
	case "pair":
		args = append(args, "-cert", "{{DIR}}/client.pem", "-key", "{{DIR}}/client.key")
	case "onefile":
		args = append(args, "-cert", "{{DIR}}/both.pem")
	}
	certPEM, keyPEM := clientCertPEM()
	return map[string]any{"op": "e2e", "server": c.Server, "dir": dir, "args": args,
		"docs": map[string]string{"targets.txt": doc.String(), "own.txt": "own", "dflt.txt": "dflt",
			"client.pem": certPEM, "client.key": keyPEM, "both.pem": certPEM + keyPEM}}
}

func TestDrv_E2E(t *testing.T) {
	dir := outDir(t)
	tr := NewTracer(filepath.Join(dir, "e2e.ndjson"))
	defer tr.Close()
	r := newRand(88)
	var cases []cmdCase
	tlcCases := 0
	if p := os.Getenv("VERIF_CASES"); p != "" {
		must(readNDJSON(p, func(line []byte) error {
			var c cmdCase
			if err := json.Unmarshal(line, &c); err != nil {
				return err
			}
			if c.DNSDest == "" {
				c.DNSDest = "none"
			}
			if c.ClientCert == "" {
				c.ClientCert = "none"
			}
			cases = append(cases, c)
			tlcCases++
			return nil
		}))
	}
	// the cases that name the server as "localhost" need that name to resolve without a network (the hosts file)
	localhostResolves := false
	if addrs, err := net.LookupHost("localhost"); err == nil {
		for _, a := range addrs {
			localhostResolves = localhostResolves || a == "127.0.0.1"
		}
	}
	if !localhostResolves {
		kept := cases[:0]
		for _, c := range cases {
			if !c.Lookup {
				kept = append(kept, c)
			}
		}
		cases = kept
	}
	nrand := int(envInt("VERIF_E2E_RANDOM", 24))
	if thorough() {
		nrand = 200
	}
	pick := func(xs ...string) string { return xs[r.Intn(len(xs))] }
	for n := 0; n < nrand; {
		c := cmdCase{HTTP2: r.Intn(4) != 0, Server: pick("plain", "plain", "plain", "tls", "unix", "tls2", "h2c", "mtls"), Trust: "na", Format: pick("http", "json"), Lazy: r.Intn(2) == 0,
			Bad: pick("none", "none", "none", "late"), Rate: []int{0, 50, 200, 2}[r.Intn(4)], MaxW: []int{1, 3}[r.Intn(2)], Workers: []int{1, 3}[r.Intn(2)],
			Name: pick("", "n"), Hdr: r.Intn(2) == 0, Body: r.Intn(2) == 0, Chunked: r.Intn(3) == 0, MaxBody: []int{-1, -1, 0, 2, 9}[r.Intn(5)],
			Redirects: pick("default", "default", "nofollow", "zero"), KeepAlive: r.Intn(4) != 0, Timeout: pick("default", "default", "default", "short"),
			ConnectTo: r.Intn(3) == 0, LAddr: r.Intn(4) == 0, Prom: r.Intn(4) == 0, MaxConn: []int{0, 0, 1, 2}[r.Intn(4)], Hosts: 1 + r.Intn(2)}
		c.ClientCert = "none"
		if c.Server == "mtls" || (c.Server == "tls" && r.Intn(3) == 0) {
			c.ClientCert = pick("pair", "onefile", "pair", "none")
		}
		if c.Server == "tls" || c.Server == "tls2" || c.Server == "mtls" {
			c.Trust = pick("insecure", "rootcert", "none")
			c.Tickets = r.Intn(2) == 0
		}
		c.H2C = c.Server == "h2c" && r.Intn(2) == 0
		c.HostHdr = r.Intn(5) == 0
		c.Head = r.Intn(4) == 0
		c.Lookup = localhostResolves && r.Intn(6) == 0
		c.DNSDest = "none"
		if n%8 == 5 {
			c.DNSDest, c.ConnectTo, c.KeepAlive, c.Hosts = pick("forever", "off", "chain"), true, false, 1
		}
		if !c.valid() {
			continue
		}
		cases = append(cases, c)
		n++
	}
	// -resolvers replaces the process-wide resolver of the command's process for good: the cases that use it run last
	sort.SliceStable(cases, func(a, b int) bool { return cases[a].DNSDest == "none" && cases[b].DNSDest != "none" })
	startE2EDNS(t)
	var ops []map[string]any
	var readFrom sync.Map // stalled cases: when the reader of the output pipe started to read (wall clock)
	for k, c := range cases {
		d := filepath.Join(dir, fmt.Sprintf("e2e%03d", k))
		must(os.MkdirAll(d, 0o755))
		if c.Stall {
			// the output is a named pipe; its reader opens it, does nothing for 400 ms, then copies everything to out.real
			fifo := filepath.Join(d, "out.bin")
			must(syscall.Mkfifo(fifo, 0o600))
			go func(d string, k int) {
				f, err := os.Open(fifo)
				if err != nil {
					return
				}
				defer f.Close()
				time.Sleep(1000 * time.Millisecond)
				readFrom.Store(k, time.Now().UnixNano()) // from now on results are taken
				out, err := os.Create(filepath.Join(d, "out.real"))
				if err != nil {
					return
				}
				defer out.Close()
				_, _ = io.Copy(out, f)
			}(d, k)
		} else if k%3 == 1 { // an output file left over from an earlier run, longer than the new output
			must(os.WriteFile(filepath.Join(d, "out.bin"), bytes.Repeat([]byte("stale output of an earlier run\n"), 40000), 0o644))
		}
		ops = append(ops, c.op(d))
	}
	res, err := runMain(dir, ops)
	if err != nil {
		t.Fatal(err)
	}
	asking := os.Getenv("VERIF_FOR") // the check this run belongs to: flags that are no concern of its property are not judged
	if asking == "" {
		asking = "ACMD"
	}
	tr.Emit("Reset", KV{"for": asking})
	requests, results := 0, 0
	var samples []any
	for k, c := range cases {
		m := res[k]
		e := str(m, "err")
		if p := str(m, "panic"); p != "" {
			e = "panic: " + p
		}
		idx := map[string]int{}
		for i := 1; i <= e2eK; i++ {
			idx[c.pathOf(i)] = i
		}
		o := KV{"err": e, "decode_err": "", "prom_count": -1}
		// the output file, decoded with the library's own gob decoder
		rs := []KV{}
		type stamp struct {
			at time.Time
			ok bool
		}
		var stamps []stamp
		outName := "out.bin"
		if c.Stall {
			outName = "out.real"
			time.Sleep(100 * time.Millisecond) // the copier sees the end of the pipe when the command closes it
		}
		if f, err := os.Open(filepath.Join(dir, fmt.Sprintf("e2e%03d", k), outName)); err == nil {
			dec := vegeta.NewDecoder(f)
			for {
				var x vegeta.Result
				if err := dec.Decode(&x); err != nil {
					if err != io.EOF {
						o["decode_err"] = err.Error()
					}
					break
				}
				stamps = append(stamps, stamp{x.Timestamp, x.Code == 200})
				kind, path := "hit", ""
				if x.Method == "" && x.URL == "" {
					kind = "end"
				} else if u, err := url.Parse(x.URL); err == nil {
					path = u.Path
				}
				rs = append(rs, KV{"seq": int64(x.Seq), "kind": kind, "idx": idx[path], "code": int(x.Code), "err_empty": x.Error == "",
					"body_len": len(x.Body), "bytes_in": int64(x.BytesIn), "bytes_out": int64(x.BytesOut), "attack": x.Attack, "method": x.Method,
					"path": path, "latency_ms": x.Latency.Milliseconds(), "error": trunc(x.Error, 120)})
			}
			f.Close()
		}
		sort.SliceStable(rs, func(a, b int) bool { return rs[a]["seq"].(int64) < rs[b]["seq"].(int64) })
		o["truncated"] = len(rs) > 300
		if len(rs) > 300 {
			rs = rs[:300]
		}
		o["results"] = rs
		// what the server saw
		qs := []KV{}
		if l, ok := m["requests"].([]any); ok {
			for _, x := range l {
				q := x.(map[string]any)
				seq, err := strconv.Atoi(str(q, "seq"))
				if err != nil {
					seq = -1
				}
				hdr, _ := q["header"].(map[string]any)
				vals := func(key string) []string {
					out := []string{}
					if l, ok := hdr[key].([]any); ok {
						for _, v := range l {
							out = append(out, fmt.Sprint(v))
						}
					}
					sort.Strings(out)
					return out
				}
				host := str(q, "host")
				if h, _, err := net.SplitHostPort(host); err == nil {
					host = h
				}
				ip := str(q, "remote")
				if h, _, err := net.SplitHostPort(ip); err == nil {
					ip = h
				}
				num := func(key string) int64 { f, _ := q[key].(float64); return int64(f) }
				// the host of the URL the request was made for (the connection pool's key), from the list entry its path names
				li := idx[str(q, "path")]
				if str(q, "path") == "/redirect/0" {
					li = 4
				}
				dialhost := "127.0.0.1"
				if c.Lookup {
					dialhost = "localhost"
				}
				if c.ConnectTo {
					dialhost = "E2E.invalid"
					if c.Hosts == 2 && li%2 == 0 {
						dialhost = "E2Eb.invalid"
					}
				}
				qs = append(qs, KV{"seq": seq, "attack": str(q, "attack"), "method": str(q, "method"), "path": str(q, "path"), "host": host, "dialhost": dialhost,
					"flag": vals("X-Flag"), "own": vals("X-Own"), "body": str(q, "body"), "chunked": q["chunked"] == true, "ip": ip,
					"conn": num("conn_id"), "tls": q["tls"] == true, "client_certs": num("client_certs"), "resumed": q["resumed"] == true, "proto": str(q, "proto"), "start": num("start_ns") / 1000, "end": num("end_ns") / 1000})
			}
		}
		if len(qs) > 300 {
			qs, o["truncated"] = qs[:300], true
		}
		early := 0 // requests that began while nobody was taking results yet (stalled cases)
		if v, ok := readFrom.Load(k); ok {
			began, _ := m["began_unix_ns"].(float64)
			for _, q := range qs {
				if int64(began)+q["start"].(int64)*1000 < v.(int64) {
					early++
				}
			}
		}
		o["early"] = early
		o["reqs"] = qs
		if text := str(m, "prom_text"); text != "" {
			n := 0
			for _, line := range strings.Split(text, "\n") {
				if strings.HasPrefix(line, "request_seconds_count") {
					if i := strings.LastIndexByte(line, ' '); i >= 0 {
						v, _ := strconv.Atoi(line[i+1:])
						n += v
					}
				}
			}
			o["prom_count"] = n
		}
		e2eDNSMu.Lock()
		o["dnsq"] = e2eDNSQueries[c.dnsName(fmt.Sprintf("e2e%03d", k))+"."]
		// (expire) successes before the name was gone, and results - successes among them - from 1.5 s after that on
		earlyOK, lateOK, lateN := 0, 0, 0
		if first, ok := e2eDNSFirst[c.dnsName(fmt.Sprintf("e2e%03d", k))+"."]; ok && c.DNSDest == "expire" {
			gone := first.Add(e2eDNSLife)
			for _, ts := range stamps {
				switch {
				case ts.at.Before(gone) && ts.ok:
					earlyOK++
				case ts.at.After(gone.Add(1500 * time.Millisecond)): // (fifteen refresh periods: also on a machine busy with other things)
					lateN++
					if ts.ok {
						lateOK++
					}
				}
			}
		}
		o["early_ok"], o["late_ok"], o["late_n"] = earlyOK, lateOK, lateN
		e2eDNSMu.Unlock()
		tr.Emit("Run", KV{"c": c, "o": o})
		requests += len(qs)
		results += len(rs)
		if len(samples) < 2 && len(rs) > 3 {
			samples = append(samples, KV{"args": ops[k]["args"], "results": len(rs), "requests_seen": len(qs)})
		}
	}
	writeJSON(filepath.Join(dir, "e2e.summary.json"), KV{"tlc_cases": tlcCases, "random_cases": nrand, "runs": len(cases), "requests_seen": requests,
		"results_decoded": results, "samples": samples})
}
