package vh

// Pipeline driver (spec/pipeline): arrival orders x cuts of one attack's gob file, read back by the real
// report and plot commands through the in-process driver of package main.

import (
	"bytes"
	"encoding/json"
	"fmt"
	"os"
	"path/filepath"
	"testing"
	"time"

	vegeta "github.com/tsenart/vegeta/v12/lib"
)

func TestDrv_Pipeline(t *testing.T) {
	dir := outDir(t)
	tr := NewTracer(filepath.Join(dir, "pipe.ndjson"))
	defer tr.Close()
	r := newRand(77)
	runs := 25
	if thorough() {
		runs = 300
	}
	type job struct {
		arrival []int
		cut     int
		torn    bool
		rep     string
		plot    string
	}
	var jobs []job
	var ops []map[string]any
	base := time.Unix(1700000000, 0)
	for i := 0; i < runs; i++ {
		n := 1 + r.Intn(12)
		rs := make([]vegeta.Result, n)
		ms := 0
		for s := range rs {
			ms += r.Intn(4)
			rs[s] = vegeta.Result{Attack: "p", Seq: uint64(s), Code: 200, Timestamp: base.Add(time.Duration(ms) * time.Millisecond),
				Latency: time.Duration(1+r.Intn(50)) * time.Millisecond, BytesIn: 10}
		}
		arrival := make([]int, n) // completion order: sequence order with bounded displacement
		for s := range arrival {
			arrival[s] = s
		}
		for s := 0; s+1 < n; s++ {
			if j := s + 1 + r.Intn(3); j < n && r.Intn(2) == 0 {
				arrival[s], arrival[j] = arrival[j], arrival[s]
			}
		}
		var buf bytes.Buffer
		enc := vegeta.NewEncoder(&buf)
		ends := []int{0}
		for _, s := range arrival {
			must(enc.Encode(&rs[s]))
			ends = append(ends, buf.Len())
		}
		for _, torn := range []bool{false, true} {
			cut := r.Intn(n + 1)
			size := ends[cut]
			if torn {
				if cut == n {
					continue
				}
				size += 1 + r.Intn(ends[cut+1]-ends[cut]-1)
			}
			in := filepath.Join(dir, fmt.Sprintf("pipe%d_%v.gob", i, torn))
			must(os.WriteFile(in, buf.Bytes()[:size], 0o644))
			j := job{arrival, cut, torn, in + ".report", in + ".html"}
			ops = append(ops, map[string]any{"op": "report", "files": []string{in}, "type": "json", "output": j.rep})
			ops = append(ops, map[string]any{"op": "plot", "files": []string{in}, "threshold": 0, "title": "t", "output": j.plot})
			jobs = append(jobs, j)
		}
	}
	res, err := runMain(dir, ops)
	if err != nil {
		t.Fatal(err)
	}
	tr.Emit("Reset", nil)
	fail := func(m map[string]any) string {
		if p, _ := m["panic"].(string); p != "" {
			return "panic: " + p
		}
		e, _ := m["err"].(string)
		return e
	}
	for i, j := range jobs {
		kv := KV{"arrival": j.arrival, "cut": j.cut, "torn": j.torn, "report_err": fail(res[2*i]), "plot_err": fail(res[2*i+1]), "requests": -1, "points": -1}
		if kv["report_err"] == "" {
			var m struct {
				Requests int `json:"requests"`
			}
			bs, _ := os.ReadFile(j.rep)
			if json.Unmarshal(bs, &m) == nil {
				kv["requests"] = m.Requests
			}
		}
		if kv["plot_err"] == "" {
			page, _ := os.ReadFile(j.plot)
			if data, _, err := parseHTML(string(page)); err == nil {
				kv["points"] = len(data)
			}
		}
		tr.Emit("Pipe", kv)
	}
	writeJSON(filepath.Join(dir, "pipe.summary.json"), KV{"files": len(jobs)})
}
