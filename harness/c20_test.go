package vh

// C20 driver: observes result sequences with the real prom.Metrics (sequentially
// and from concurrent goroutines), gathers the registry and logs the flattened
// families for spec/cli/PromTrace.tla.

import (
	"fmt"
	"math"
	"net/http/httptest"
	"path/filepath"
	"sort"
	"sync"
	"testing"
	"testing/synctest"
	"time"

	"github.com/prometheus/client_golang/prometheus"
	dto "github.com/prometheus/client_model/go"
	"github.com/prometheus/common/expfmt"
	vegeta "github.com/tsenart/vegeta/v12/lib"
	"github.com/tsenart/vegeta/v12/lib/prom"
)

func TestDrv_C20(t *testing.T) {
	dir := outDir(t)
	tr := NewTracer(filepath.Join(dir, "c20.ndjson"))
	defer tr.Close()
	r := newRand(20)
	sizes := []int{0, 1, 2, 3, 10, 100, 1000, 3000}
	rounds := 3
	if thorough() {
		sizes = append(sizes, 10000)
		rounds = 20
	}
	cases, obs := 0, 0
	var samples []any
	bounds := []time.Duration{5e6, 1e7, 25e6, 5e7, 1e8, 25e7, 5e8, 1e9, 25e8, 5e9, 1e10}
	lateTrials := 0
	for round := 0; round < rounds; round++ {
		szs := sizes
		if round == 0 {
			// and a hundred small sets whose results are all observed at once by sixteen goroutines *before* the metrics are
			// registered (marked by a negative size): what is exported afterwards still counts every one of them
			for k := 0; k < 100; k++ {
				szs = append(szs, -16)
			}
		}
		for _, n := range szs {
			late := n < 0
			if late {
				n = -n
			}
			for _, concurrent := range []bool{false, true} {
				if late {
					if !concurrent {
						continue
					}
					lateTrials++
				}
				cases++
				synctest.Test(t, func(t *testing.T) { // virtual time: the series are created and live inside the bubble
					pm := prom.NewMetrics()
					reg := prometheus.NewRegistry()
					if !late {
						must(pm.Register(reg))
					}
					if cases%3 == 1 && !late { // a registration that the registry refuses (the same metrics again, another instance) leaves the first one serving
						if pm.Register(reg) == nil || prom.NewMetrics().Register(reg) == nil {
							tr.Emit("Panic", KV{"what": "Register", "value": "a second registration of the same metric names was accepted"})
						}
					}
					tr.Emit("Reset", KV{"n": n, "concurrent": concurrent})
					rs := make([]vegeta.Result, n)
					for i := range rs {
						lat := time.Duration(r.Int63n(int64(20 * time.Second)))
						switch r.Intn(4) {
						case 0: // exactly on, just below, just above a bucket bound
							lat = bounds[r.Intn(len(bounds))] + time.Duration(r.Intn(3)-1)
						case 1:
							lat = time.Duration(r.Intn(1000))
						case 2: // spread evenly over the orders of magnitude between a microsecond and half a minute
							lat = time.Duration(math.Exp(math.Log(1e3) + r.Float64()*(math.Log(29e9)-math.Log(1e3))))
						}
						e := []string{"", "", "connection refused", "context deadline exceeded", "EOF"}[r.Intn(5)]
						if cases%4 == 1 && e != "" { // many distinct failure messages
							e = fmt.Sprintf("dial tcp 10.0.%d.%d:80: connect: connection refused", r.Intn(3), r.Intn(40))
						}
						few := 2
						if cases%3 == 0 {
							few = 1 // few label sets: each series sees many results
						}
						urls := []string{"http://a/", "http://b/x?y=1"}
						if cases%5 == 3 { // a URL that is another one plus digits, with status codes that make up the difference
							urls = []string{"http://10.0.0.1:80", "http://10.0.0.1:8020"}
						}
						if cases%4 == 2 { // many label sets
							urls = []string{fmt.Sprintf("http://h%d/", r.Intn(40)), fmt.Sprintf("http://a/p/%d", r.Intn(40))}
						}
						if cases%6 == 5 { // texts that carry U+FFFD (what a garbled name became when it was recorded) next to the same texts without it
							urls = []string{"http://a/caf\ufffd", "http://a/caf"}
							if e != "" {
								e += []string{"", ": \ufffd\ufffd", "\ufffd"}[r.Intn(3)]
							}
						}
						code := []uint16{200, 404, 0, 500}[r.Intn(2*few)]
						if cases%5 == 3 {
							code = []uint16{200, 0, 20, 2000}[r.Intn(4)]
						}
						if n == 1000 && concurrent == (round%2 == 0) { // every status code a server can send, and every change in the number of digits
							code = uint16(100 + i%500)
							if i%50 == 7 {
								code = []uint16{0, 1, 9, 10, 99, 999, 1000, 9999, 10000, 65535}[r.Intn(10)]
							}
						}
						ui := r.Intn(few)
						if cases%5 == 3 {
							ui = r.Intn(2)
						}
						rs[i] = vegeta.Result{Method: []string{"GET", "POST"}[r.Intn(few)], URL: urls[ui],
							Code: code, BytesIn: uint64(r.Intn(1 << 20)), BytesOut: uint64(r.Intn(1 << 10)), Latency: lat, Error: e}
					}
					observe := func(x *vegeta.Result) {
						pm.Observe(x)
						tr.Emit("Observe", KV{"method": x.Method, "url": x.URL, "code": int(x.Code), "err": x.Error,
							"bin": Big(x.BytesIn), "bout": Big(x.BytesOut), "lat": Big(uint64(x.Latency))})
					}
					// the results arrive in three phases that lie more than an hour of (virtual) time apart, as in a soak test;
					// the registry is gathered after each phase and once more after a further idle hour
					// half of the cases read the metrics the way a scraper does, through the HTTP handler of the exporter (text
					// exposition, parsed back), and are scraped all the while results are being observed
					handler := prom.NewHandler(reg, time.Now())
					viaHTTP := (cases/2)%2 == 0 // both the sequential and the concurrent case of a pair
					scrape := func() ([]*dto.MetricFamily, error) {
						rec := httptest.NewRecorder()
						handler.ServeHTTP(rec, httptest.NewRequest("GET", "/metrics", nil))
						var parser expfmt.TextParser
						m, err := parser.TextToMetricFamilies(rec.Body)
						if err != nil {
							return nil, err
						}
						var fams []*dto.MetricFamily
						for _, f := range m {
							fams = append(fams, f)
						}
						sort.Slice(fams, func(i, j int) bool { return fams[i].GetName() < fams[j].GetName() })
						return fams, nil
					}
					phase := func(lo, hi int) {
						if concurrent {
							var wg sync.WaitGroup
							if viaHTTP { // scrapes overlap the observations
								stop, done := make(chan struct{}), make(chan struct{})
								go func() {
									defer close(done)
									for {
										select {
										case <-stop:
											return
										default:
											_, _ = scrape()
										}
									}
								}()
								defer func() { close(stop); <-done }()
							}
							start := make(chan struct{}) // (the observers begin together)
							for g := 0; g < 16; g++ {
								wg.Add(1)
								go func(g int) {
									defer wg.Done()
									<-start
									for i := lo + g; i < hi; i += 16 {
										observe(&rs[i])
									}
								}(g)
							}
							close(start)
							wg.Wait()
						} else {
							for i := lo; i < hi; i++ {
								observe(&rs[i])
							}
						}
					}
					obs += n
					gather := func() {
						fams, err := reg.Gather()
						if viaHTTP {
							fams, err = scrape()
						}
						if err != nil {
							tr.Emit("Panic", KV{"what": "Gather", "value": err.Error()})
							return
						}
						counters, hists := []KV{}, []KV{}
						for _, f := range fams {
							for _, m := range f.GetMetric() {
								lb := map[string]string{}
								for _, p := range m.GetLabel() {
									lb[p.GetName()] = p.GetValue()
								}
								code := lb["status"]
								if c := m.GetCounter(); c != nil {
									v := c.GetValue()
									val := []int{9999, 9999, 9999, 9999, 9999, 9999}
									if v >= 0 && v == math.Trunc(v) && v < 1e18 {
										val = Big(uint64(v))
									}
									counters = append(counters, KV{"name": f.GetName(), "method": lb["method"], "url": lb["url"], "status": atoi(code),
										"message": lb["message"], "value": val})
								}
								if h := m.GetHistogram(); h != nil {
									var bs []uint64
									for _, b := range h.GetBucket() {
										if math.IsInf(b.GetUpperBound(), 1) {
											continue // the text exposition spells out the +Inf bucket (= the sample count); Gather leaves it implicit
										}
										bs = append(bs, b.GetCumulativeCount())
									}
									hists = append(hists, KV{"method": lb["method"], "url": lb["url"], "status": atoi(code), "count": h.GetSampleCount(),
										"sum": Big(uint64(math.Round(h.GetSampleSum() * 1e9))), "buckets": bs, "name": f.GetName()})
								}
							}
						}
						sort.Slice(counters, func(i, j int) bool { return counters[i]["name"].(string) < counters[j]["name"].(string) })
						tr.Emit("Gather", KV{"counters": counters, "hists": hists})
						if len(samples) < 2 && n == 2 {
							samples = append(samples, KV{"results": rs, "counters": counters})
						}
					}
					for ph := 0; ph < 3; ph++ {
						if late { // everything at once, then the registration
							if ph == 0 {
								phase(0, n)
								must(pm.Register(reg))
							}
						} else {
							phase(ph*n/3, (ph+1)*n/3)
						}
						gather()
						time.Sleep(35 * time.Minute)
					}
					time.Sleep(61 * time.Minute)
					synctest.Wait()
					gather()
				})
			}
		}
	}
	writeJSON(filepath.Join(dir, "c20.summary.json"), KV{"cases": cases, "observations": obs, "events": tr.N, "samples": samples})
}

func atoi(s string) int {
	n := 0
	for _, c := range s {
		if c < '0' || c > '9' {
			return -1
		}
		n = n*10 + int(c-'0')
	}
	return n
}
