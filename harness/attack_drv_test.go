package vh

import (
	"encoding/json"
	"fmt"
	"math/rand"
	"os"
	"path/filepath"
	"testing"
)

// randomScript draws one timed script; big=true draws long runs with many workers.
func randomScript(r *rand.Rand, id int, big bool) *Script {
	grid := []int{0, 0, 1, 1, 2, 3, 5}
	sc := &Script{ID: id}
	if big {
		sc.Workers = []int{1, 4, 16, 64, r.Intn(40), 8 + r.Intn(12)}[r.Intn(6)]
		sc.MaxWorkers = []int{-1, 1, 8, 64, 64, sc.Workers + 1 + r.Intn(3), sc.Workers + r.Intn(20)}[r.Intn(7)] // also bounds just above the initial pool
		sc.MaxHits = 200 + r.Intn(1800)
		sc.Waits = []int{[]int{0, 0, 1}[r.Intn(3)]}
		saturate := sc.MaxWorkers > 0 && r.Intn(2) == 0 // slow answers and an eager pacer: the pool grows to its bound and stays there
		if saturate {
			sc.Waits = []int{0, 0, 0, 1}
		}
		for i := 0; i < 40; i++ {
			lat := []int{0, 1, 2, 7, 30}[r.Intn(5)]
			if saturate {
				lat = 20 + r.Intn(30)
			}
			sc.Lat = append(sc.Lat, lat)
			sc.Cons = append(sc.Cons, []int{0, 0, 0, 1}[r.Intn(4)])
		}
		if r.Intn(3) == 0 {
			sc.Stops = []StopAt{{At: 50 + r.Intn(300), N: 1 + r.Intn(3)}}
		}
		if r.Intn(4) == 0 {
			sc.Du = 100 + r.Intn(400)
		}
		if r.Intn(6) == 0 {
			sc.FailCall = 1 + r.Intn(sc.MaxHits)
		}
		return sc
	}
	switch id % 16 {
	case 3: // a body limit, and responses whose tail beyond it arrives late: the hit lasts until the body is read to its end, and
		// nothing of the attack is left behind reading it
		sc.TailMs = []int{5, 40, 300}[id/16%3]
		sc.Workers = 1 + r.Intn(2)
		sc.MaxWorkers = sc.Workers + r.Intn(2)
		for i, n := 0, 3+r.Intn(4); i < n; i++ {
			sc.Waits = append(sc.Waits, []int{0, 1, 3}[r.Intn(3)])
		}
		sc.Lat, sc.Cons = []int{r.Intn(3)}, []int{0}
		sc.StopCall = len(sc.Waits) + 1
		return sc
	case 7: // a pacer that takes its time to answer: the wait still counts from the moment it was returned
		sc.PaceLatUs = []int{300, 5000, 60000}[id/16%3]
		sc.Workers, sc.MaxWorkers = 1+r.Intn(3), []int{-1, 2, 4}[r.Intn(3)]
		for i, n := 0, 2+r.Intn(5); i < n; i++ {
			sc.Waits = append(sc.Waits, []int{1, 7, 40, 100}[r.Intn(4)])
		}
		sc.Lat, sc.Cons = []int{r.Intn(3)}, []int{0}
		sc.StopCall = len(sc.Waits) + 1 + r.Intn(3)
		return sc
	case 15: // an empty initial pool, a small bound, and more than ten seconds of quiet between the hits: the attack goes on
		m := 1 + id/16%2
		sc.Workers, sc.MaxWorkers, sc.StepMs = 0, m, 500
		sc.Waits = []int{0}
		for i := 0; i < m+2; i++ {
			sc.Waits = append(sc.Waits, 10500+r.Intn(4000))
		}
		sc.Lat, sc.Cons = []int{1 + r.Intn(3)}, []int{0}
		sc.StopCall = len(sc.Waits) + 1
		return sc
	}
	switch r.Intn(24) {
	case 2, 3: // waits of tens of microseconds (below any timer resolution worth the name): still obeyed
		sc.WaitUs = 10
		sc.Workers, sc.MaxWorkers = r.Intn(3), []int{-1, 1, 2}[r.Intn(3)]
		for i, n := 0, 2+r.Intn(6); i < n; i++ {
			sc.Waits = append(sc.Waits, 1+r.Intn(4))
		}
		sc.Lat, sc.Cons = []int{0}, []int{0}
		sc.StopCall = len(sc.Waits) + 1 + r.Intn(3)
		return sc
	case 0: // a wait of seconds with a Stop inside it: the sleep cannot be interrupted, and the hit in hand is not released early
		w := 1000 + r.Intn(2000)
		sc.Workers, sc.MaxWorkers = r.Intn(3), []int{-1, 1, 2}[r.Intn(3)]
		sc.Waits = []int{r.Intn(2), w, 1 + r.Intn(2)}
		sc.Lat, sc.Cons = []int{r.Intn(3)}, []int{0}
		sc.Stops = []StopAt{{At: 20 + r.Intn(w-40), N: 1 + r.Intn(2)}}
		return sc
	case 1: // two spikes that saturate the pool, a pause of several request timeouts between them
		k := 3 + r.Intn(3)
		sc.Workers, sc.MaxWorkers, sc.TimeoutMs = r.Intn(2), k, 200
		for i := 0; i < k; i++ {
			sc.Waits = append(sc.Waits, 0)
		}
		sc.Waits = append(sc.Waits, 300+r.Intn(600))
		for i := 0; i < k-1; i++ {
			sc.Waits = append(sc.Waits, 0)
		}
		sc.Waits = append(sc.Waits, 1)
		sc.Lat, sc.Cons = []int{100}, []int{0}
		sc.StopCall = 2*k + 2
		return sc
	}
	sc.Workers = r.Intn(5)
	sc.MaxWorkers = []int{-1, 1, 1, 2, 2, 3, 4}[r.Intn(7)]
	n := 1 + r.Intn(7)
	for i := 0; i < n; i++ {
		sc.Waits = append(sc.Waits, grid[r.Intn(len(grid))])
		sc.Lat = append(sc.Lat, grid[r.Intn(len(grid))]*[]int{1, 1, 4}[r.Intn(3)])
		sc.Cons = append(sc.Cons, grid[r.Intn(len(grid))])
	}
	if r.Intn(10) == 0 {
		sc.Waits[r.Intn(len(sc.Waits))] = 40 + r.Intn(60) // a long sleep that a Stop cannot interrupt
		sc.Waits = append(sc.Waits, 1+r.Intn(2))          // but not as the repeating tail (see horizon)
	}
	// every script needs a reason to end
	switch r.Intn(6) {
	case 0, 1:
		sc.StopCall = 1 + r.Intn(n+2)
	case 2:
		sc.Du = 1 + r.Intn(12)
	case 3:
		sc.FailCall = 1 + r.Intn(n+1)
	default:
		sc.Stops = []StopAt{{At: r.Intn(12), N: 1 + r.Intn(3)}}
	}
	// and sometimes several at once
	if r.Intn(3) == 0 {
		sc.Stops = append(sc.Stops, StopAt{At: r.Intn(15), N: 1 + r.Intn(2)})
	}
	if r.Intn(4) == 0 && sc.Du == 0 {
		sc.Du = 1 + r.Intn(15)
	}
	if r.Intn(5) == 0 && sc.StopCall == 0 {
		sc.StopCall = 1 + r.Intn(n+3)
	}
	if r.Intn(6) == 0 && sc.FailCall == 0 {
		sc.FailCall = 1 + r.Intn(n+2)
	}
	if r.Intn(2) == 0 {
		sc.Name = []string{"a", "big attack"}[r.Intn(2)]
	}
	switch os.Getenv("VERIF_BIAS") {
	case "C03": // slow transports and consumers, few permitted workers, any initial count
		for i := range sc.Lat {
			sc.Lat[i] += r.Intn(6)
			sc.Cons[i] += r.Intn(3)
		}
		sc.MaxWorkers = 1 + r.Intn(3)
		sc.Workers = r.Intn(6)
	case "C04": // adversarial pacers and durations
		for i := range sc.Waits {
			sc.Waits[i] = []int{0, 0, 1, 2, 7, 13}[r.Intn(6)]
		}
		if r.Intn(2) == 0 {
			sc.Du = 1 + r.Intn(20)
		}
	case "C02": // several reasons to end at once, concurrent Stop calls
		if r.Intn(2) == 0 {
			sc.Stops = append(sc.Stops, StopAt{At: r.Intn(10), N: 2 + r.Intn(3)})
		}
		if r.Intn(4) == 0 {
			sc.FailCall = 1 + r.Intn(n+1)
		}
	}
	if sc.StopCall == 0 && sc.FailCall == 0 && len(sc.Stops) == 0 && sc.Du == 0 {
		sc.StopCall = n + 1
	}
	// virtual time only advances while the attack loop is blocked: a script whose
	// number of hits is not bounded must end in a positive wait
	if sc.StopCall == 0 && sc.FailCall == 0 && sc.Waits[len(sc.Waits)-1] == 0 {
		sc.Waits[len(sc.Waits)-1] = 1 + r.Intn(3)
	}
	return sc
}

// TestDrv_Attack runs the scripts exported by TLC (VERIF_SCRIPTS) and seeded
// random ones in parallel shards, one trace file per shard.
func TestDrv_Attack(t *testing.T) {
	dir := outDir(t)
	var scripts []*Script
	// of the scripts exported by TLC, take every sliceMod-th one, starting at a seed-dependent offset
	sliceMod := int(envInt("VERIF_SLICE", 1))
	sliceOff, lineNo := int(seed()%int64(sliceMod)), 0
	if p := os.Getenv("VERIF_SCRIPTS"); p != "" {
		must(readNDJSON(p, func(line []byte) error {
			lineNo++
			if (lineNo+sliceOff)%sliceMod != 0 {
				return nil
			}
			sc := &Script{}
			if err := json.Unmarshal(line, sc); err != nil {
				return err
			}
			sc.ID = len(scripts)
			scripts = append(scripts, sc)
			return nil
		}))
	}
	exported := len(scripts)
	nRandom, nBig := int(envInt("VERIF_RANDOM", 2000)), int(envInt("VERIF_BIG", 8))
	r := newRand(2)
	for i := 0; i < nRandom; i++ {
		scripts = append(scripts, randomScript(r, len(scripts), false))
	}
	for i := 0; i < nBig; i++ {
		scripts = append(scripts, randomScript(r, len(scripts), true))
	}
	// a pool of thousands of initial workers (tens of thousands in the thorough tier: the monitor's bookkeeping in TLC is
	// quadratic in the number of hits in flight, 20000 take five minutes), every one of them busy at once: the capacity
	// asked for is there
	huge := []int{3000}
	if thorough() {
		huge = append(huge, 20000)
	}
	for i, w := range huge[:min(len(huge), int(envInt("VERIF_HUGE", 2)))] {
		scripts = append(scripts, &Script{ID: len(scripts), Workers: w, MaxWorkers: w + i, Waits: []int{0}, Lat: []int{30}, Cons: []int{0}, MaxHits: w + i})
	}
	const P = 16
	t.Run("shards", func(t *testing.T) {
		for s := 0; s < P; s++ {
			s := s
			t.Run(fmt.Sprint(s), func(t *testing.T) {
				t.Parallel()
				tr := NewTracer(filepath.Join(dir, fmt.Sprintf("attack_%02d.ndjson", s)))
				defer tr.Close()
				for i := s; i < len(scripts); i += P {
					if abnormalEnds.Load() > 40 {
						break
					}
					runScript(t, tr, scripts[i])
				}
			})
		}
	})
	var samples []any
	for _, i := range []int{0, exported, len(scripts) - 1} {
		if i >= 0 && i < len(scripts) {
			samples = append(samples, scripts[i])
		}
	}
	writeJSON(filepath.Join(dir, "attack.summary.json"), KV{"scripts": len(scripts), "exported": exported,
		"random": nRandom, "big": nBig, "samples": samples})
}
