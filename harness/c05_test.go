package vh

// C05 driver: real-time stress of the real Attacker with many workers and an
// in-memory transport; the results of each attack, sorted by sequence number,
// are logged for spec/attack/ResultsTrace.tla.  Only order facts are asserted.

import (
	"bytes"
	"errors"
	"fmt"
	"io"
	"net/http"
	"path/filepath"
	"sort"
	"strconv"
	"sync"
	"sync/atomic"
	"testing"
	"testing/iotest"
	"time"

	vegeta "github.com/tsenart/vegeta/v12/lib"
)

type stressRT struct {
	mu     sync.Mutex
	start  time.Time
	enter  map[uint64]time.Duration
	exit   map[uint64]time.Duration
	jitter time.Duration
	faults bool // some exchanges fail in the transport or while the body is read: every exit path measures latency
}

func (rt *stressRT) RoundTrip(req *http.Request) (*http.Response, error) {
	if req.Header.Get("X-Vegeta-Attack") == "second" { // the other attack of the same Attacker: not observed
		return &http.Response{Status: "200 OK", StatusCode: 200, Proto: "HTTP/1.1", ProtoMajor: 1, ProtoMinor: 1,
			Header: http.Header{}, Body: io.NopCloser(bytes.NewReader(nil)), Request: req}, nil
	}
	seq, _ := strconv.ParseUint(req.Header.Get("X-Vegeta-Seq"), 10, 64)
	en := time.Since(rt.start)
	if rt.jitter > 0 && seq%3 == 0 {
		time.Sleep(time.Duration(seq%7) * rt.jitter)
	}
	if rt.jitter < 0 && seq == 0 { // a negative "jitter": the first response is stalled by that much
		time.Sleep(-rt.jitter)
	}
	ex := time.Since(rt.start)
	rt.mu.Lock()
	rt.enter[seq], rt.exit[seq] = en, ex
	rt.mu.Unlock()
	switch {
	case rt.faults && seq%11 == 3: // the transport fails
		return nil, errors.New("scripted transport failure")
	case rt.faults && seq%11 == 7: // the body cannot be read
		return &http.Response{Status: "200 OK", StatusCode: 200, Proto: "HTTP/1.1", ProtoMajor: 1, ProtoMinor: 1,
			Header: http.Header{}, Body: io.NopCloser(iotest.ErrReader(errors.New("scripted read failure"))), Request: req}, nil
	}
	return &http.Response{Status: "200 OK", StatusCode: 200, Proto: "HTTP/1.1", ProtoMajor: 1, ProtoMinor: 1,
		Header: http.Header{}, Body: io.NopCloser(bytes.NewReader(nil)), Request: req}, nil
}

func TestDrv_C05(t *testing.T) {
	dir := outDir(t)
	total := int(envInt("VERIF_C05_RESULTS", 60000))
	type cfg struct {
		workers, maxw uint64
		rate          int // per second, 0 = unlimited
		jitter        time.Duration
	}
	var cfgs []cfg
	for _, w := range []uint64{1, 2, 8, 64, 512} {
		cfgs = append(cfgs, cfg{w, w * 4, 0, 0}, cfg{w, w, 0, 20 * time.Microsecond}, cfg{w, 0, 200000, 0})
	}
	cfgs = append(cfgs, cfg{1, 16, 0, 20 * time.Microsecond}, cfg{1, 64, 0, 0}, cfg{0, 8, 0, 5 * time.Microsecond}, cfg{10, 5, 0, 0})
	// paced attacks on a full pool whose first response stalls: the loop falls a whole unit behind and catches up (40 results each)
	cfgs = append(cfgs, cfg{1, 1, 100, -230 * time.Millisecond}, cfg{2, 2, 200, -120 * time.Millisecond})
	per := total/len(cfgs) + 1
	const P = 16
	trs := make([]*Tracer, P)
	for i := range trs {
		trs[i] = NewTracer(filepath.Join(dir, fmt.Sprintf("c05_%02d.ndjson", i)))
	}
	results := 0
	var samples []any
	for ci, c := range cfgs {
		rt := &stressRT{enter: map[uint64]time.Duration{}, exit: map[uint64]time.Duration{}, jitter: c.jitter, faults: ci%2 == 1}
		opts := []func(*vegeta.Attacker){vegeta.Client(&http.Client{Transport: rt}), vegeta.Workers(c.workers)}
		if ci%3 == 1 { // options given before Client configure a client that Client replaces: whatever they do, latencies stay true
			opts = append([]func(*vegeta.Attacker){vegeta.Timeout(30 * time.Microsecond), vegeta.KeepAlive(false), vegeta.HTTP2(false)}, opts...)
		}
		if c.maxw > 0 {
			opts = append(opts, vegeta.MaxWorkers(c.maxw))
		}
		atk := vegeta.NewAttacker(opts...)
		tgts := []vegeta.Target{{Method: "GET", URL: "http://verif.invalid/"}}
		if rt.faults { // and some never reach the transport: the request cannot be built
			tgts = append(tgts, vegeta.Target{Method: "GET", URL: "http://verif.invalid/a"}, vegeta.Target{Method: "BAD METHOD", URL: "http://verif.invalid/"})
		}
		tgt := vegeta.NewStaticTargeter(tgts...)
		if ci%4 == 2 {
			// a targeter that is slow once and then fails (a lazily read list with a bad entry): the hit that drew the failure
			// was stamped before the hits that overtook it
			inner, calls, failAt := tgt, new(int64), int64(per/3+1)
			tgt = func(t *vegeta.Target) error {
				if atomic.AddInt64(calls, 1) == failAt {
					time.Sleep(3 * time.Millisecond)
					return errors.New("scripted targeter failure")
				}
				return inner(t)
			}
		}
		if ci%4 == 0 && c.workers >= 2 {
			// a request timeout (40 ms) and a targeter one of whose calls takes longer than that and then succeeds (a lazily read
			// list stalling): the hit keeps the instant at which it drew its sequence number
			inner, calls, slowAt := tgt, new(int64), int64(per/4+1)
			tgt = func(t *vegeta.Target) error {
				if atomic.AddInt64(calls, 1) == slowAt {
					time.Sleep(150 * time.Millisecond)
				}
				return inner(t)
			}
			atk = vegeta.NewAttacker(append(opts, vegeta.Timeout(40*time.Millisecond))...)
		}
		rt.start = time.Now()
		var got []*vegeta.Result
		pacer := vegeta.ConstantPacer{Freq: c.rate, Per: time.Second}
		if c.jitter < 0 { // the same rate in units of 100 ms, so that the stall puts the loop more than a whole unit behind
			pacer = vegeta.ConstantPacer{Freq: c.rate / 10, Per: 100 * time.Millisecond}
		}
		var second sync.WaitGroup
		for r := range atk.Attack(tgt, pacer, 0, "c05") {
			got = append(got, r)
			if len(got) == per/2 && ci%4 == 3 && c.jitter >= 0 {
				// half-way through, a second attack begins on the same Attacker (its own targets, pacer and consumer); the first
				// one's numbering and stamping go on as before
				second.Add(1)
				go func() {
					defer second.Done()
					for range atk.Attack(vegeta.NewStaticTargeter(vegeta.Target{Method: "GET", URL: "http://second.invalid/"}),
						vegeta.ConstantPacer{Freq: 2000, Per: time.Second}, 0, "second") {
					}
				}()
			}
			if len(got) == per || (c.jitter < 0 && len(got) == 40) {
				atk.Stop()
			}
		}
		second.Wait()
		sort.Slice(got, func(i, j int) bool { return got[i].Seq < got[j].Seq })
		tr := trs[ci%P]
		tr.Emit("Reset", KV{"workers": c.workers, "maxw": c.maxw, "rate": c.rate, "jitter_ns": int64(c.jitter)})
		for _, r := range got {
			ts := r.Timestamp.Sub(rt.start)
			en, entered := rt.enter[r.Seq]
			ex := rt.exit[r.Seq]
			end := r.End().Sub(rt.start)
			kv := KV{"seq": r.Seq, "started": ts >= 0, "ts": Big(uint64(max64(int64(ts), 0))), "latency_nonneg": r.Latency >= 0,
				"latency": Big(uint64(max64(int64(r.Latency), 0))), "entered": entered, "enter": Big(uint64(en)), "exit": Big(uint64(ex)),
				"end": Big(uint64(max64(int64(end), 0)))}
			tr.Emit("Res", kv)
		}
		tr.Emit("End", KV{"results": len(got)})
		results += len(got)
		if len(samples) < 2 && len(got) > 2 {
			samples = append(samples, KV{"config": fmt.Sprintf("%+v", c), "first": fmt.Sprintf("seq=%d ts=%v lat=%v", got[1].Seq, got[1].Timestamp.Sub(rt.start), got[1].Latency)})
		}
	}
	for _, tr := range trs {
		tr.Close()
	}
	writeJSON(filepath.Join(dir, "c05.summary.json"), KV{"attacks": len(cfgs), "results": results, "samples": samples})
}

func max64(a, b int64) int64 {
	if a > b {
		return a
	}
	return b
}
