package vh

// C11 driver: feeds latency multisets of several shapes and arrival orders to
// the real vegeta.Metrics and logs the reported percentiles together with rank
// counts taken from the driver's own sorted copy (spec/report/Quantiles.tla).

import (
	"bytes"
	"fmt"
	"io"
	"math"
	"math/rand"
	"path/filepath"
	"sort"
	"strconv"
	"strings"
	"testing"
	"time"

	vegeta "github.com/tsenart/vegeta/v12/lib"
)

func genLatencies(r *rand.Rand, n int, shape int) []uint64 {
	out := make([]uint64, n)
	for i := range out {
		switch shape {
		case 0: // uniform
			out[i] = uint64(r.Int63n(1e9))
		case 1: // log-normal
			out[i] = uint64(math.Exp(r.NormFloat64()*1.5+14)) + 1
		case 2: // constant (the value is chosen once per multiset, see constValue)
			out[i] = 0
		case 3: // few-valued: filled in by fewValued below
			out[i] = 0
		case 4: // bimodal with a huge gap
			if r.Intn(10) < 6 {
				out[i] = uint64(1e6 + r.Int63n(1e5))
			} else {
				out[i] = uint64(3600e9 + r.Int63n(1e9))
			}
		case 5: // zero latencies among tiny ones
			out[i] = []uint64{0, 0, 5, 9, 1000}[r.Intn(5)]
		default: // ramp
			out[i] = uint64(i+1) * 1000
		}
	}
	return out
}

// fewValued draws 2..5 distinct values with counts such that no reported quantile (50, 90, 95, 99) falls within
// 3 % of n of a boundary between two values.  Inside that margin the estimator interpolates between the two
// neighbouring clusters and breaks the rank bound - a genuine finding that is listed in known_findings.json and
// reproduced by the fixed instance knownTwoCluster below, so the random generator stays clear of it.
// constValue draws one latency: round ones, ones that do not survive a round trip through float seconds, any value.
func constValue(r *rand.Rand) uint64 {
	switch r.Intn(3) {
	case 0:
		return []uint64{123456789, 65000, 129000, 1001000000, 1003000000, 1, 999999999, 3600e9 + 1}[r.Intn(8)]
	case 1:
		return uint64(1+r.Intn(100000)) * 1000
	}
	return uint64(r.Int63n(5e9))
}

func fewValued(r *rand.Rand, n int) []uint64 {
	vals := []uint64{7, 1e6, 40e6, 41e6, 3e9}
	for i := range vals { // the magnitudes stay, the exact values vary
		if i > 0 && r.Intn(2) == 0 {
			vals[i] += uint64(r.Intn(1000000))
		}
	}
	if r.Intn(3) == 0 {
		vals[1], vals[2] = 250000000, 1001000000
	}
	k := 2 + r.Intn(4)
	if k > n {
		k = n
	}
	r.Shuffle(len(vals), func(i, j int) { vals[i], vals[j] = vals[j], vals[i] })
	vals = vals[:k]
	sort.Slice(vals, func(i, j int) bool { return vals[i] < vals[j] })
	cuts := map[int]bool{}
	for len(cuts) < k-1 {
		if n < 40 { // tiny sets: the absolute slack of one rank dominates, any split is fine
			cuts[1+r.Intn(n-1)] = true
			continue
		}
		f := r.Float64()
		if (f > 0.03 && f < 0.47) || (f > 0.53 && f < 0.87) {
			if c := int(f * float64(n)); c > 0 && c < n {
				cuts[c] = true
			}
		}
	}
	var cs []int
	for c := range cuts {
		cs = append(cs, c)
	}
	sort.Ints(cs)
	cs = append(cs, n)
	out := make([]uint64, 0, n)
	vi := 0
	for i := 0; i < n; i++ {
		for vi < len(cs)-1 && i >= cs[vi] {
			vi++
		}
		out = append(out, vals[vi])
	}
	r.Shuffle(n, func(i, j int) { out[i], out[j] = out[j], out[i] })
	return out
}

// knownTwoCluster is the fixed failing instance: 4885 samples of 1 ms and 5115 of 40 ms.  The median is 40 ms
// (rank 5000 lies 115 ranks inside the upper cluster), the estimator reports a value between the two clusters.
func knownTwoCluster() []uint64 {
	out := make([]uint64, 10000)
	for i := range out {
		out[i] = 1e6
		if i >= 4885 {
			out[i] = 40e6
		}
	}
	rand.New(rand.NewSource(4885)).Shuffle(len(out), func(i, j int) { out[i], out[j] = out[j], out[i] })
	return out
}

func TestDrv_C11(t *testing.T) {
	dir := outDir(t)
	tr := NewTracer(filepath.Join(dir, "c11.ndjson"))
	defer tr.Close()
	r := newRand(11)
	sizes := []int{1, 2, 3, 5, 10, 37, 100, 101, 1000, 10000}
	rounds := 2
	if thorough() {
		sizes = append(sizes, 100000)
		rounds = 10
	}
	cases := 0
	var samples []any
	var pool vegeta.Metrics
	poolRep := vegeta.NewHDRHistogramPlotReporter(&pool)
	for round := 0; round < rounds; round++ {
		for _, n := range sizes {
			for shape := 0; shape < 8; shape++ {
				lats := genLatencies(r, n, shape)
				if shape == 3 {
					if n == 1 {
						lats[0] = 1e6
					} else {
						lats = fewValued(r, n)
					}
				}
				if shape == 2 {
					c := constValue(r)
					for i := range lats {
						lats[i] = c
					}
				}
				if shape == 3 && n >= 10 && round%2 == 1 {
					// a burst of slow results followed by instantaneous ones (as drawn: the slow ones arrive first)
					for i := range lats {
						if i >= n/5 { // (a fifth: the boundary between the two clusters stays well away from every reported quantile)
							lats[i] = 0
						}
					}
				}
				shapeName := fmt.Sprint(shape)
				if shape == 7 {
					if round > 0 || n != 10000 {
						continue
					}
					lats, shapeName = knownTwoCluster(), "known-two-cluster-4885-5115"
				}
				sorted := append([]uint64(nil), lats...)
				sort.Slice(sorted, func(i, j int) bool { return sorted[i] < sorted[j] })
				for order := 0; order < 3; order++ { // as drawn, sorted, reverse-sorted arrival
					arr := lats
					switch order {
					case 1:
						arr = sorted
					case 2:
						arr = make([]uint64, n)
						for i := range arr {
							arr[i] = sorted[n-1-i]
						}
					}
					cases++
					// every first arrival order re-uses one Metrics variable (reset by assignment) and the reporter made for it
					// once, as a caller with equal-sized reporting windows would; the others use fresh ones
					var local vegeta.Metrics
					m, rep := &local, vegeta.Reporter(nil)
					if order == 0 {
						pool = vegeta.Metrics{}
						m, rep = &pool, poolRep
					}
					if order == 1 || (order == 0 && cases%2 == 0) {
						// a periodic report that fires before the first result has arrived reads the still empty Metrics
						_ = m.Latencies.Quantile(0.99)
						early := vegeta.NewHDRHistogramPlotReporter(m)
						if rep != nil {
							early = rep
						}
						_ = early.Report(io.Discard)
					}
					var bystander vegeta.Metrics // (order 2) another Metrics of the same process, fed in turns with the one under test
					for i, v := range arr {
						if order == 2 && i%7 == 3 {
							bystander.Add(&vegeta.Result{Code: 200, Timestamp: time.Unix(1600000000, int64(i)), Latency: time.Duration(1000+i) * time.Hour})
						}
						m.Add(&vegeta.Result{Seq: uint64(i), Code: 200, Timestamp: time.Unix(1600000000, int64(i)), Latency: time.Duration(v)})
						if order == 0 && i == n/5 && n >= 10 {
							m.Close() // a periodic report closes in between; what follows may add nothing to any running total
						}
						// reading a percentile or rendering a report in between (periodic reporting, a by-value snapshot) is an observation
						if order == 2 && n >= 10 && (i == n/3 || i == n/2 || i == n-2) {
							_ = m.Latencies.Quantile(0.5)
							snap := *m
							snap.Close()
							_ = vegeta.NewHDRHistogramPlotReporter(m).Report(io.Discard)
						}
					}
					m.Close()
					if order == 2 {
						bystander.Close()
					}
					if order >= 1 {
						// another Metrics starts its life in between (a second report in the same process); closing this one again
						// must not move a percentile
						var other vegeta.Metrics
						other.Add(&vegeta.Result{Code: 200, Timestamp: time.Unix(1600000000, 0), Latency: 1234567 * time.Hour / 1000})
						_ = other.Latencies.Quantile(0.5)
						m.Close()
					}
					tr.Emit("Reset", KV{"n": n, "allequal": sorted[0] == sorted[n-1], "shape": shapeName, "order": order})
					L := m.Latencies
					tr.Emit("Summary", KV{"min": Big(uint64(L.Min)), "p50": Big(uint64(L.P50)), "p90": Big(uint64(L.P90)),
						"p95": Big(uint64(L.P95)), "p99": Big(uint64(L.P99)), "max": Big(uint64(L.Max))})
					for _, qv := range []struct {
						q int
						v time.Duration
					}{{50, L.P50}, {90, L.P90}, {95, L.P95}, {99, L.P99}} {
						v := uint64(qv.v)
						lt := sort.Search(n, func(i int) bool { return sorted[i] >= v })
						le := sort.Search(n, func(i int) bool { return sorted[i] > v })
						tr.Emit("Rank", KV{"q": qv.q, "v": Big(v), "lt": lt, "le": le})
					}
					var buf bytes.Buffer
					if rep == nil {
						rep = vegeta.NewHDRHistogramPlotReporter(m)
					}
					if err := rep.Report(&buf); err != nil {
						tr.Emit("Panic", KV{"what": "hdrplot", "value": err.Error()})
						continue
					}
					var vals [][]int
					bad := false
					for i, ln := range strings.Split(strings.TrimSpace(buf.String()), "\n") {
						if i == 0 {
							continue
						}
						f := strings.Fields(ln)
						ms, err := strconv.ParseFloat(f[0], 64)
						if err != nil || ms < 0 {
							bad = true
							break
						}
						vals = append(vals, Big(uint64(math.Round(ms*1e6))))
					}
					if bad {
						tr.Emit("Panic", KV{"what": "hdrplot row"})
						continue
					}
					tr.Emit("Hdr", KV{"values": vals})
					if len(samples) < 3 && n == 5 {
						samples = append(samples, KV{"latencies_ns": arr, "p50": L.P50, "p99": L.P99})
					}
				}
			}
		}
	}
	writeJSON(filepath.Join(dir, "c11.summary.json"), KV{"cases": cases, "events": tr.N, "samples": samples})
}
