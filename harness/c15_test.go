package vh

// C15 driver: many goroutines draw concurrently from one real targeter (http,
// JSON, static); every draw is recorded per caller and written after the run
// for spec/targets/ConcTrace.tla.  Built without and with -race.

import (
	"bytes"
	"fmt"
	"net/http"
	"os"
	"path/filepath"
	"sort"
	"strconv"
	"strings"
	"sync"
	"testing"

	vegeta "github.com/tsenart/vegeta/v12/lib"
)

// idOf returns the id all parts of the target agree on, or -1.
func idOf(t *vegeta.Target) int {
	i := strings.LastIndex(t.URL, "/t")
	if i < 0 {
		return -1
	}
	id, err := strconv.Atoi(t.URL[i+2:])
	if err != nil || id < 1 {
		return -1
	}
	want := strconv.Itoa(id)
	if t.Method != []string{"GET", "POST", "PUT"}[id%3] || len(t.Header["X-Id"]) != 1 || t.Header["X-Id"][0] != want ||
		len(t.Header["X-Pad"]) != 1 || !strings.HasSuffix(t.Header["X-Pad"][0], "-"+want) {
		return -1
	}
	if id%4 == 0 && string(t.Body) != "body:"+want {
		return -1
	}
	// the default header X-Tag: a, b, c (given to the http and JSON targeters) merged with the target's own X-Tag: t<id>
	tag := append([]string{}, t.Header["X-Tag"]...)
	sort.Strings(tag)
	if len(tag) != 4 || tag[0] != "a" || tag[1] != "b" || tag[2] != "c" || tag[3] != "t"+want {
		return -1
	}
	return id
}

// defaults is the default header as repeated -header flags build it: values added one at a time, so the slice has spare capacity.
func defaults() http.Header {
	h := http.Header{}
	for _, v := range []string{"a", "b", "c"} {
		h["X-Tag"] = append(h["X-Tag"], v)
	}
	return h
}

type keptTarget struct {
	t  *vegeta.Target
	id int
}

func TestDrv_C15(t *testing.T) {
	dir := outDir(t)
	tr := NewTracer(filepath.Join(dir, "c15.ndjson"))
	defer tr.Close()
	bodyDir := filepath.Join(dir, "bodies")
	must(os.MkdirAll(bodyDir, 0o755))
	sizes := []int{1, 7, 100, 3000}
	callerss := []int{1, 2, 8, 64}
	rounds := int(envInt("VERIF_C15_ROUNDS", 2))
	runs, drawsTotal := 0, 0
	var samples []any
	for round := 0; round < rounds; round++ {
		for _, n := range sizes {
			var httpDoc, jsonDoc bytes.Buffer
			tgts := make([]vegeta.Target, n)
			enc := vegeta.NewJSONTargetEncoder(&jsonDoc)
			// the same targets in the opposite order: the input of the second of two targeters living side by side
			var httpDocR, jsonDocR bytes.Buffer
			encR := vegeta.NewJSONTargetEncoder(&jsonDocR)
			var httpParts []string
			for i := 1; i <= n; i++ {
				httpStart := httpDoc.Len()
				pad := i % 90
				if i%41 == 7 { // now and then a header line of several KiB (a token, a cookie): beyond any 4 KiB buffer, within the 64 KiB a line may have
					pad = []int{4200, 9000, 30000, 60000}[i/41%4]
				}
				tg := vegeta.Target{Method: []string{"GET", "POST", "PUT"}[i%3], URL: fmt.Sprintf("http://h.example/t%d", i),
					Header: http.Header{"X-Id": {strconv.Itoa(i)}, "X-Pad": {strings.Repeat("p", pad) + "-" + strconv.Itoa(i)}, "X-Tag": {"t" + strconv.Itoa(i)}}}
				fmt.Fprintf(&httpDoc, "%s %s\nX-Id: %d\nX-Pad: %s\nX-Tag: t%d\n", tg.Method, tg.URL, i, tg.Header["X-Pad"][0], i)
				if i%4 == 0 {
					tg.Body = []byte("body:" + strconv.Itoa(i))
					if i <= 400 {
						p := filepath.Join(bodyDir, fmt.Sprintf("b%d", i))
						must(os.WriteFile(p, tg.Body, 0o644))
						fmt.Fprintf(&httpDoc, "@%s\n", p)
					}
				}
				httpDoc.WriteString("\n")
				httpParts = append(httpParts, string(httpDoc.Bytes()[httpStart:]))
				must(enc.Encode(&tg))
				must(encR.Encode(&tg)) // (re-ordered below)
				tg.Header = tg.Header.Clone()
				tg.Header["X-Tag"] = []string{"a", "b", "c", "t" + strconv.Itoa(i)} // the static targeter gets the merged targets
				tgts[i-1] = tg
			}
			{
				lines := bytes.SplitAfter(jsonDocR.Bytes(), []byte("\n"))
				var rev bytes.Buffer
				for i := len(lines) - 1; i >= 0; i-- {
					rev.Write(lines[i])
				}
				jsonDocR = rev
				for i := n; i >= 1; i-- {
					httpDocR.WriteString(httpParts[i-1])
				}
			}
			for _, callers := range callerss {
				for _, kind := range []string{"http", "json", "static", "jsonfile", "httpfile"} {
					skip := false
					var files []*os.File
					mk := func(twin int) (tgr vegeta.Targeter) {
						switch kind {
						case "jsonfile", "httpfile": // the source is a file, as in the command (an io.Closer, unlike a reader in memory)
							if n > 400 && kind == "httpfile" {
								skip = true
								return nil
							}
							doc := [][]byte{jsonDoc.Bytes(), jsonDocR.Bytes()}[twin]
							if kind == "httpfile" {
								doc = [][]byte{httpDoc.Bytes(), httpDocR.Bytes()}[twin]
							}
							p := filepath.Join(dir, fmt.Sprintf("c15_%d_%d_%d_%d.%s", round, n, callers, twin, kind))
							must(os.WriteFile(p, doc, 0o644))
							f, err := os.Open(p)
							must(err)
							files = append(files, f)
							if kind == "jsonfile" {
								tgr = vegeta.NewJSONTargeter(f, nil, defaults())
							} else {
								tgr = vegeta.NewHTTPTargeter(f, nil, defaults())
							}
						case "http":
							if n > 400 {
								skip = true // body files only exist for the first 400 targets
								return nil
							}
							tgr = vegeta.NewHTTPTargeter(bytes.NewReader([][]byte{httpDoc.Bytes(), httpDocR.Bytes()}[twin]), nil, defaults())
						case "json":
							tgr = vegeta.NewJSONTargeter(bytes.NewReader([][]byte{jsonDoc.Bytes(), jsonDocR.Bytes()}[twin]), nil, defaults())
						case "static":
							tgr = vegeta.NewStaticTargeter(tgts...)
						}
						return tgr
					}
					// in the odd rounds two stream targeters over the same targets in opposite orders live side by side (each read by its own callers):
					// neither is "mixed with another"
					twins := 1
					if round%2 == 1 && kind != "static" && callers >= 2 {
						twins = 2
					}
					tgrs := make([]vegeta.Targeter, twins)
					for i := range tgrs {
						tgrs[i] = mk(i)
					}
					if skip {
						continue
					}
					perCallers := make([][][]int, twins)
					var wg sync.WaitGroup
					start := make(chan struct{})
					for tw := 0; tw < twins; tw++ {
						perCaller := make([][]int, callers)
						perCallers[tw] = perCaller
						tgr := tgrs[tw]
						for g := 0; g < callers; g++ {
							wg.Add(1)
							go func(g int) {
								defer wg.Done()
								<-start
								eofs := 0
								var slot vegeta.Target
								var kept []keptTarget
								for k := 0; ; k++ {
									var fresh vegeta.Target
									tg := &fresh
									if g%2 == 1 && kind != "json" && kind != "jsonfile" {
										// every other caller keeps one variable for all its draws, the ordinary
										// `var t Target; for tr(&t) == nil` loop (the JSON format documents merging into it)
										tg = &slot
									}
									err := tgr(tg)
									switch {
									case err == vegeta.ErrNoTargets:
										perCaller[g] = append(perCaller[g], 0)
										eofs++
									case err != nil:
										perCaller[g] = append(perCaller[g], -2)
									default:
										id := idOf(tg)
										// the targets this caller drew before (those it did not hand back) are still what they were:
										// nothing a later draw - its own or another caller's - writes may reach into them
										for _, h := range kept {
											if idOf(h.t) != h.id {
												id = -3
											}
										}
										if tg == &fresh {
											if len(kept) == 3 {
												kept = kept[1:]
											}
											kept = append(kept, keptTarget{tg, id})
										}
										perCaller[g] = append(perCaller[g], id)
									}
									if kind == "static" && k+1 >= (3*n)/callers+g%3+1 {
										return
									}
									if eofs >= 2 || len(perCaller[g]) > 3*n+10 {
										return
									}
								}
							}(g)
						}
					}
					close(start)
					wg.Wait()
					for _, f := range files {
						f.Close()
					}
					for _, perCaller := range perCallers {
						runs++
						tr.Emit("Reset", KV{"kind": kind, "n": n, "callers": callers, "side_by_side": twins})
						for g, ds := range perCaller {
							for _, res := range ds {
								tr.Emit("Draw", KV{"g": g + 1, "res": res})
								drawsTotal++
							}
						}
						tr.Emit("End", nil)
						if len(samples) < 2 && n == 7 && callers == 2 {
							samples = append(samples, KV{"kind": kind, "draws_per_caller": perCaller})
						}
					}
				}
			}
		}
	}
	writeJSON(filepath.Join(dir, "c15.summary.json"), KV{"runs": runs, "draws": drawsTotal, "samples": samples})
}
