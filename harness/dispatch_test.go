package vh

// Driver of the program's entry point (spec/cli/Dispatch.tla): every argument
// list exported by TLC is given to the real binary (VERIF_VEGETA_BIN, built
// from the tree under test) with one JSON-encoded result on its standard
// input; the exit status and what the two output streams show are read off and
// logged for spec/cli/DispatchTrace.tla.

import (
	"bytes"
	"encoding/json"
	"errors"
	"os"
	"os/exec"
	"path/filepath"
	"regexp"
	"strings"
	"testing"
	"time"

	vegeta "github.com/tsenart/vegeta/v12/lib"
)

var cmdUsageRe = regexp.MustCompile(`Usage(?:: vegeta| of vegeta) (attack|report|plot|encode)[ :]`)

func TestDrv_Dispatch(t *testing.T) {
	dir := outDir(t)
	tr := NewTracer(filepath.Join(dir, "dispatch.ndjson"))
	defer tr.Close()
	bin := os.Getenv("VERIF_VEGETA_BIN")
	var stdin bytes.Buffer
	must(vegeta.NewJSONEncoder(&stdin).Encode(&vegeta.Result{Attack: "a", Seq: 0, Code: 200, Timestamp: time.Unix(1700000000, 0), Latency: time.Millisecond,
		Method: "GET", URL: "http://x/"}))
	tr.Emit("Reset", nil)
	runs := 0
	var samples []any
	must(readNDJSON(os.Getenv("VERIF_CASES"), func(line []byte) error {
		var c struct {
			Args []string `json:"args"`
		}
		if err := json.Unmarshal(line, &c); err != nil {
			return err
		}
		if c.Args == nil {
			c.Args = []string{}
		}
		cmd := exec.Command(bin, c.Args...)
		cmd.Dir = dir
		cmd.Stdin = bytes.NewReader(stdin.Bytes())
		var out, errb bytes.Buffer
		cmd.Stdout, cmd.Stderr = &out, &errb
		err := cmd.Run()
		exit := 0
		var ee *exec.ExitError
		if errors.As(err, &ee) {
			exit = ee.ExitCode()
		} else if err != nil {
			return err
		}
		so, se := out.String(), errb.String()
		usage := "none"
		if strings.Contains(se, "Usage: vegeta [global flags] <command>") {
			usage = "vegeta"
		} else if m := cmdUsageRe.FindStringSubmatch(se); m != nil {
			usage = m[1]
		}
		flagErr := strings.Contains(se, "flag provided but not defined") || strings.Contains(se, "invalid value")
		kind, which := "other", "none"
		switch {
		case strings.HasPrefix(so, "Version:"):
			kind = "version"
		case strings.Contains(se, "Unknown command:"):
			kind = "unknown"
		case flagErr && usage == "vegeta":
			kind = "flagerr"
		case flagErr && usage != "none":
			kind = "cmdflagerr"
		case usage == "vegeta" && exit == 0:
			kind = "help"
		case usage == "vegeta":
			kind = "nocmd"
		case usage != "none":
			kind = "cmdhelp"
		case strings.Contains(se, "vegeta dump has been deprecated"):
			kind, which = "run", "dump"
		case strings.Contains(so, "Requests") && strings.Contains(so, "Latencies"):
			kind, which = "run", "report"
		case strings.HasPrefix(so, `{"attack":"a"`):
			kind, which = "run", "encode"
		case strings.Contains(strings.ToLower(so), "<html"):
			kind, which = "run", "plot"
		case strings.Contains(se, "bad method") || strings.Contains(se, "bad target") || strings.Contains(se, "no targets"):
			kind, which = "run", "attack" // the result line is no target
		}
		tr.Emit("Run", KV{"args": c.Args, "got": KV{"kind": kind, "exit": exit, "usage": usage, "cmd": which},
			"stderr": trunc(se, 160), "stdout": trunc(so, 80)})
		runs++
		if len(samples) < 3 && len(c.Args) == 3 {
			samples = append(samples, KV{"args": c.Args, "kind": kind, "exit": exit})
		}
		return nil
	}))
	writeJSON(filepath.Join(dir, "dispatch.summary.json"), KV{"runs": runs, "samples": samples})
}
