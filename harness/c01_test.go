package vh

// C01 driver: closed loop around the real pacers in virtual time.  The loop
// follows the pacer exactly (sleep as long as told, then one hit) under a seeded
// stall history; spec/pacer/PacerTrace.tla decides the clauses.  The schedule of
// sine and linear pacers is evaluated here from the closed form of the declared
// integral, independently of lib/pacer.go.

import (
	"fmt"
	"math"
	"math/big"
	"math/rand"
	"path/filepath"
	"testing"
	"time"

	vegeta "github.com/tsenart/vegeta/v12/lib"
)

func sign64(x int64) int {
	switch {
	case x < 0:
		return -1
	case x > 0:
		return 1
	}
	return 0
}

func abs64(x int64) uint64 {
	if x < 0 {
		return uint64(-(x + 1)) + 1
	}
	return uint64(x)
}

type paceLoop struct {
	kind     string
	pacer    vegeta.Pacer
	reset    KV
	schedule func(t int64) float64 // nil for the constant pacer
	per, frq int64                 // constant pacer
	horizon  func(t int64) bool    // stop the loop here (linear pacer leaving its domain)
	cross    int64                 // > 0: the instant from which on the pacer may stop (its rate has reached zero)
	always   bool                  // run in every tier and for every seed
	rate     func(t int64) float64 // the declared instantaneous rate in hits per second (derivative of the schedule); nil = not asked
}

func divWitness(a, b uint64) KV {
	if b == 0 {
		return KV{"q": Big(0), "r": Big(0)}
	}
	return KV{"q": Big(a / b), "r": Big(a % b)}
}

func constantLoop(freq int, per time.Duration) *paceLoop {
	kv := KV{"kind": "constant", "fsign": sign64(int64(freq)), "psign": sign64(int64(per)),
		"freq": Big(abs64(int64(freq))), "per": Big(abs64(int64(per))), "text": fmt.Sprintf("Constant{%d/%s}", freq, per)}
	if freq > 0 && per > 0 {
		kv["idiv"] = divWitness(uint64(per), uint64(freq))
	} else {
		kv["idiv"] = divWitness(0, 0)
	}
	pl := &paceLoop{kind: "constant", pacer: vegeta.ConstantPacer{Freq: freq, Per: per}, reset: kv, per: int64(per), frq: int64(freq)}
	if freq > 0 && per > 0 {
		pl.rate = func(int64) float64 { return float64(freq) / float64(per) * 1e9 }
	}
	return pl
}

func sineLoop(period time.Duration, mean, amp int, offset float64) *paceLoop {
	return sineLoopPer(period, mean, amp, time.Second, offset)
}

// sineLoopPer: mean and amplitude in hits per `per` (rates whose interval is not a whole number of nanoseconds, or below one)
func sineLoopPer(period time.Duration, mean, amp int, per time.Duration, offset float64) *paceLoop {
	return sineLoopPers(period, mean, per, amp, per, offset)
}

// sineLoopPers: the mean and the amplitude are rates of their own, each with its own time unit
func sineLoopPers(period time.Duration, mean int, per time.Duration, amp int, ampPer time.Duration, offset float64) *paceLoop {
	sp := vegeta.SinePacer{Period: period, Mean: vegeta.Rate{Freq: mean, Per: per}, Amp: vegeta.Rate{Freq: amp, Per: ampPer}, StartAt: offset}
	m, a, p := float64(mean)/float64(per), float64(amp)/float64(ampPer), float64(period)
	invalid := period <= 0 || mean <= 0 || a >= m
	kv := KV{"kind": "sine", "invalid": invalid, "unlimited": false, "qe4": int64(math.Ceil((m + math.Abs(a)) * 1e4)),
		"text": fmt.Sprintf("Sine{period %s mean %d/%s amp %d/%s offset %.4f}", period, mean, per, amp, ampPer, offset)}
	pl := &paceLoop{kind: "sine", pacer: sp, reset: kv, schedule: func(t int64) float64 {
		// H = M t + (A P / 2pi) (cos(O) - cos(O + 2 pi t / P))
		return m*float64(t) + a*p/(2*math.Pi)*(math.Cos(offset)-math.Cos(offset+2*math.Pi*float64(t)/p))
	}}
	if !invalid {
		pl.rate = func(t int64) float64 { return (m + a*math.Sin(offset+2*math.Pi*float64(t)/p)) * 1e9 } // dH/dt
	}
	return pl
}

func linearLoop(start int, per time.Duration, slope float64) *paceLoop {
	lp := vegeta.LinearPacer{StartAt: vegeta.Rate{Freq: start, Per: per}, Slope: slope}
	unlimited := start == 0 || per == 0
	invalid := !unlimited && (start < 0 || per < 0)
	var b float64
	if per != 0 {
		b = float64(start) / float64(per) * 1e9 // hits per second
	}
	kv := KV{"kind": "linear", "invalid": invalid, "unlimited": unlimited,
		"text": fmt.Sprintf("Linear{start %d/%s slope %g}", start, per, slope)}
	pl := &paceLoop{kind: "linear", pacer: lp, reset: kv,
		schedule: func(t int64) float64 { x := float64(t) / 1e9; return slope*x*x/2 + b*x },
		horizon:  func(t int64) bool { return slope < 0 && slope*float64(t)/1e9+b < 0.3*b }}
	if !invalid && !unlimited {
		pl.rate = func(t int64) float64 { return slope*float64(t)/1e9 + b }
	}
	return pl
}

// run follows the pacer for at most n consultations under a stall history.
func (pl *paceLoop) run(tr *Tracer, r *rand.Rand, n int, stallMode int) (consults int) {
	pl.reset["stall_mode"] = stallMode
	tr.Emit("Reset", pl.reset)
	var t int64
	var hits uint64
	bounds := func(kv KV, at int64) {
		if pl.schedule != nil {
			h := pl.schedule(at)
			kv["hlo"], kv["hhi"] = int64(math.Floor(h-1e-6)), int64(math.Ceil(h+1e-6))
		}
	}
	unit := int64(1000)
	if pl.kind == "constant" && pl.frq > 0 && pl.per > 0 {
		unit = pl.per/pl.frq + 1
	} else if pl.schedule != nil {
		unit = 1e6
	}
	if unit > 1e15 || unit <= 0 {
		unit = 1e15
	}
	stall := func() (d int64) {
		switch stallMode {
		case 0:
			return 0
		case 1:
			if r.Intn(50) != 0 {
				return 0
			}
		case 2:
			if r.Intn(3) != 0 {
				return 0
			}
		}
		switch r.Intn(4) {
		case 0:
			d = 1 + r.Int63n(3)
		case 1:
			d = 1 + r.Int63n(unit)
		case 2:
			d = 1 + r.Int63n(5*unit)
		default:
			d = unit * (1 + r.Int63n(40)) // falls many hits behind
			if pl.kind == "constant" && pl.per > 0 && pl.per < 1e15 && r.Intn(2) == 0 {
				d = pl.per*(1+r.Int63n(3)) + r.Int63n(unit) // beyond a whole unit: the coarse catch-up test fires
			}
		}
		if d <= 0 || t > math.MaxInt64/4 || d > math.MaxInt64/4 {
			return 0
		}
		return d
	}
	for i := 0; i < n; i++ {
		if pl.horizon != nil && pl.horizon(t) {
			break
		}
		var wait time.Duration
		var stop bool
		panicked := func() (p bool) {
			defer func() {
				if rec := recover(); rec != nil {
					tr.Emit("Panic", KV{"value": fmt.Sprint(rec), "t": Big(uint64(t)), "hits": Big(hits)})
					p = true
				}
			}()
			// the other method of a pacer must not panic either, whatever the parameters (its value is checked below, where
			// the statement says something about it)
			_ = pl.pacer.Rate(time.Duration(t))
			if i == 0 {
				for _, at := range []int64{0, 1, 1e9, 3600e9, math.MaxInt64} {
					_ = pl.pacer.Rate(time.Duration(at))
				}
			}
			wait, stop = pl.pacer.Pace(time.Duration(t), hits)
			return false
		}()
		if panicked {
			return i
		}
		kv := KV{"t": Big(uint64(t)), "hits": Big(hits), "wsign": sign64(int64(wait)), "wait": Big(abs64(int64(wait))), "stop": stop}
		if pl.kind == "constant" && pl.frq > 0 && pl.per > 0 {
			kv["ediv"] = divWitness(uint64(t), uint64(pl.per))
		}
		bounds(kv, t)
		if pl.cross > 0 {
			kv["crossed"] = t >= pl.cross-1000 // (a microsecond of float rounding in the instant itself)
		}
		tr.Emit("Consult", kv)
		consults++
		if stop {
			return
		}
		due := t
		if wait > 0 {
			if int64(wait) > math.MaxInt64-t { // the loop cannot represent this instant: end of the run
				return
			}
			due = t + int64(wait)
		}
		if d := stall(); d > 0 && due < math.MaxInt64/2 {
			tr.Emit("Stall", KV{"d": Big(uint64(d))})
			due += d
		}
		if pl.horizon != nil && pl.horizon(due) {
			return // a stall carried the loop out of the linear pacer's domain (its rate must stay well above zero)
		}
		t = due
		hits++
		kv = KV{"t": Big(uint64(t))}
		bounds(kv, t)
		if pl.rate != nil { // the rate the pacer declares for this instant against the derivative of its schedule, in parts per billion
			got, want := pl.pacer.Rate(time.Duration(t)), pl.rate(t)
			dev := math.Abs(got-want) / math.Max(math.Abs(want), 1e-12) * 1e9
			if !(dev < 1e9) {
				dev = 1e9
			}
			kv["rdev"] = int64(dev)
		}
		tr.Emit("Release", kv)
		if d := stall(); d > 0 && t < math.MaxInt64/2 {
			tr.Emit("Stall", KV{"d": Big(uint64(d))})
			t += d
		}
	}
	return
}

func TestDrv_C01(t *testing.T) {
	dir := outDir(t)
	r := newRand(1)
	var loops []*paceLoop
	// constant pacers: the whole grid including zero, negative and extreme parameters
	freqs := []int{1, 2, 3, 7, 50, 100, 1000, 10000, 1000000, 2000000000, math.MaxInt64, 0, -1}
	pers := []time.Duration{1, 2, 3, time.Microsecond, time.Millisecond, time.Second, time.Minute, time.Hour,
		time.Duration(math.MaxInt64), time.Duration(math.MaxInt64 / 10), 0, -time.Second}
	for _, f := range freqs {
		for _, p := range pers {
			loops = append(loops, constantLoop(f, p))
		}
	}
	// sine pacers: amplitude up to just below the mean, every named offset and arbitrary phases
	for _, period := range []time.Duration{100 * time.Millisecond, time.Second, time.Minute} {
		for _, mean := range []int{1, 10, 100, 1000, 100000} {
			for _, ratio := range []float64{0, .1, .5, .8, .9, .95, .99, .999} {
				amp := int(float64(mean) * ratio)
				for _, off := range []float64{vegeta.MeanUp, vegeta.Peak, vegeta.MeanDown, vegeta.Trough, r.Float64() * 2 * math.Pi} {
					loops = append(loops, sineLoop(period, mean, amp, off))
				}
			}
		}
	}
	// means whose interval is fractional or below a nanosecond, flat and swinging
	for _, mp := range []struct {
		mean int
		per  time.Duration
	}{{7, 10}, {3, 10}, {300000007, time.Second}, {1500, time.Microsecond}, {70000, time.Second}, {3, time.Minute}} {
		for _, ratio := range []float64{0, .5} {
			pl := sineLoopPer([]time.Duration{time.Millisecond, time.Second}[r.Intn(2)], mp.mean, int(float64(mp.mean)*ratio), mp.per,
				[]float64{vegeta.MeanUp, vegeta.Peak, vegeta.MeanDown, vegeta.Trough}[r.Intn(4)])
			pl.always = true
			loops = append(loops, pl)
		}
	}
	// phases written outside [0, 2pi): the same waves as their reductions (the trough as -pi/2, a peak three turns on)
	for _, off := range []float64{-math.Pi / 2, -math.Pi / 3, -7.5, 2*math.Pi + 1, 6*math.Pi + math.Pi/2, -4 * math.Pi} {
		pl := sineLoop([]time.Duration{time.Second, time.Minute}[r.Intn(2)], 100, 80, off)
		pl.always = true
		loops = append(loops, pl)
	}
	// mean and amplitude given in different time units
	for _, ma := range []struct {
		mean   int
		per    time.Duration
		amp    int
		ampPer time.Duration
	}{{600, time.Minute, 9, time.Second}, {100, time.Second, 3000, time.Minute}, {5, 10 * time.Millisecond, 400, time.Second}, {30000, time.Minute, 2, 10 * time.Millisecond}} {
		pl := sineLoopPers([]time.Duration{time.Second, 10 * time.Second}[r.Intn(2)], ma.mean, ma.per, ma.amp, ma.ampPer,
			[]float64{vegeta.MeanUp, vegeta.Peak, vegeta.MeanDown, vegeta.Trough}[r.Intn(4)])
		pl.always = true
		loops = append(loops, pl)
	}
	for _, bad := range [][3]int{{0, 100, 90}, {60, 0, 90}, {60, 100, 110}, {-10, 100, 90}, {60, -10, 90}, {60, 100, 100}} {
		loops = append(loops, sineLoop(time.Duration(bad[0])*time.Second, bad[1], bad[2], 0))
	}
	// linear pacers: positive slopes, gentle negative ones (|slope| <= 0.004 rate^2, rate stays above 30% of its start)
	for _, start := range []int{1, 10, 100, 10000} {
		for _, slope := range []float64{0, 0.1, 1, 10, 1000, -0.004, -0.001} {
			for _, per := range []time.Duration{time.Second, 100 * time.Millisecond, 10 * time.Millisecond, time.Minute} {
				if per != time.Second && start == 10000 {
					continue // keep the rate below one hit per microsecond
				}
				b := float64(start) / per.Seconds() // hits per second at t = 0
				s := slope
				if slope < 0 {
					s = slope * b * b
				}
				loops = append(loops, linearLoop(start, per, s))
			}
		}
	}
	// almost flat ramps (the slope far below the rounding granularity of rate^2, down to the smallest float there is) and
	// everyday slopes on very fast pacers: always taken, the arithmetic must not cancel
	for _, c := range []struct {
		start int
		per   time.Duration
		slope float64
	}{{100, time.Second, -1e-12}, {100, time.Second, -1e-13}, {100, time.Second, 1e-13}, {100, time.Second, -5e-324}, {100, time.Second, 5e-324},
		{7, 3 * time.Second, -1e-17}, {7, 3 * time.Second, 1e-17}, {1000000, time.Second, -1e-5}, {1000000, time.Second, 1e-5},
		{100000, time.Second, -1e-3}, {1, time.Minute, -1e-20}} {
		pl := linearLoop(c.start, c.per, c.slope)
		pl.always = true
		loops = append(loops, pl)
	}
	// ramps that are followed down to a rate of zero and beyond (no horizon): from there on the declared schedule falls, which no
	// count of hits can; what the statement implies for every t all the same is that the count never exceeds the highest value the
	// schedule has had so far by more than one hit - whether the pacer stops there (it does) or not
	for _, c := range []struct {
		start int
		slope float64
	}{{100, -50}, {10, -1}, {1000, -2000}} {
		pl := linearLoop(c.start, time.Second, c.slope)
		b, a := float64(c.start), c.slope
		cross := int64(-b / a * 1e9) // the instant the rate reaches zero
		pl.always, pl.horizon, pl.rate, pl.cross = true, nil, nil, cross
		pl.schedule = func(t int64) float64 { x := float64(min(t, cross)) / 1e9; return a*x*x/2 + b*x }
		pl.reset["text"] = fmt.Sprintf("Linear{start %d/1s slope %g} followed past its zero crossing", c.start, c.slope)
		loops = append(loops, pl)
	}
	loops = append(loops, linearLoop(0, time.Second, 1), linearLoop(5, 0, 1), linearLoop(-1, time.Second, 1), linearLoop(1, -time.Second, 1))

	n, take := 500, 5 // quick: every 5th loop (seed-dependent offset), 500 consultations
	if thorough() {
		n, take = 3000, 1
	}
	const P = 16
	trs := make([]*Tracer, P)
	for i := range trs {
		trs[i] = NewTracer(filepath.Join(dir, fmt.Sprintf("c01_%02d.ndjson", i)))
	}
	runs, consults := 0, 0
	var samples []any
	off := int(seed() % int64(take))
	for i, pl := range loops {
		special := pl.kind == "constant" && (pl.frq <= 0 || pl.per <= 0 || pl.frq > 1000000 || pl.per > time.Hour.Nanoseconds() || pl.per < 1000)
		special = special || pl.always
		if (i+off)%take != 0 && !special && !(pl.reset["invalid"] == true) {
			continue
		}
		for mode := 0; mode < 3; mode++ {
			if special && mode > 0 && (pl.frq <= 0 || pl.per <= 0) {
				continue
			}
			consults += pl.run(trs[runs%P], r, n, mode)
			runs++
		}
		if len(samples) < 3 {
			samples = append(samples, pl.reset["text"])
		}
	}
	// single consultations of the constant pacer at points no closed loop reaches: the edges of every comparison in the
	// arithmetic, hit counts up to MaxUint64, elapsed times up to MaxInt64
	npts := 400
	if thorough() {
		npts = 4000
	}
	fs := []int64{1, 2, 3, 7, 1000, 1000000007, math.MaxInt64}
	ps := []int64{1, 2, 3, 1000, int64(time.Second), int64(time.Hour), math.MaxInt64 / 10, math.MaxInt64}
	for i := 0; i < npts; i++ {
		f, p := fs[r.Intn(len(fs))], ps[r.Intn(len(ps))]
		if r.Intn(4) == 0 {
			f, p = 1+r.Int63n(math.MaxInt64-1), 1+r.Int63n(math.MaxInt64-1)
		}
		var e int64
		switch r.Intn(6) {
		case 0:
		case 1:
			e = p - 1
		case 2:
			e = p
		case 3:
			e = math.MaxInt64
		case 4:
			if p < math.MaxInt64/5 {
				e = p*int64(1+r.Intn(4)) + int64(r.Intn(3)) - 1
			}
		default:
			e = r.Int63()
		}
		if e < 0 {
			e = 0
		}
		expected, interval := uint64(f)*uint64(e/p), uint64(p/f)
		var h uint64
		switch r.Intn(9) {
		case 0:
		case 1:
			h = expected - 1
		case 2:
			h = expected
		case 3:
			h = expected + 1
		case 4:
			h = math.MaxUint64
		case 5:
			if interval > 0 {
				h = math.MaxUint64/interval + uint64(r.Intn(3)) - 1 // where the product passes 2^64
			}
		default:
			if interval > 0 {
				h = math.MaxInt64/interval + uint64(r.Intn(3)) - 1 // the overflow guard's edge
			} else {
				h = r.Uint64()
			}
		}
		pl := constantLoop(int(f), time.Duration(p))
		tr := trs[i%P]
		pl.reset["stall_mode"] = "point"
		tr.Emit("Reset", pl.reset)
		tr.Emit("Jump", KV{"t": Big(uint64(e)), "hits": Big(h)})
		var wait time.Duration
		var stop bool
		func() {
			defer func() {
				if rec := recover(); rec != nil {
					tr.Emit("Panic", KV{"value": fmt.Sprint(rec), "t": Big(uint64(e)), "hits": Big(h)})
				}
			}()
			wait, stop = pl.pacer.Pace(time.Duration(e), h)
			tr.Emit("Consult", KV{"t": Big(uint64(e)), "hits": Big(h), "wsign": sign64(int64(wait)), "wait": Big(abs64(int64(wait))), "stop": stop,
				"ediv": divWitness(uint64(e), uint64(p))})
		}()
		consults++
	}
	events := 0
	for _, tr := range trs {
		events += tr.N
		tr.Close()
	}
	writeJSON(filepath.Join(dir, "c01.summary.json"), KV{"loops_defined": len(loops), "runs": runs, "consultations": consults, "events": events, "samples": samples})
	_ = big.NewInt
}

// TestDrv_C01Points records real ConstantPacer.Pace results at the edges of
// every comparison of the transcription and writes them as the TLA+ module
// Pts for Apalache (spec/pacer/CPPoints.tla).
func TestDrv_C01Points(t *testing.T) {
	dir := outDir(t)
	r := newRand(101)
	n := 120
	if thorough() {
		n = 600
	}
	type pt struct {
		f, p, e int64
		h       uint64
		w       int64
		s       bool
	}
	var pts []pt
	fs := []int64{1, 2, 3, 7, 1000, 1000000007, math.MaxInt64}
	ps := []int64{1, 2, 3, 1000, int64(time.Second), int64(time.Hour), math.MaxInt64 / 10, math.MaxInt64}
	for len(pts) < n {
		f, p := fs[r.Intn(len(fs))], ps[r.Intn(len(ps))]
		if r.Intn(4) == 0 {
			f, p = 1+r.Int63n(math.MaxInt64-1), 1+r.Int63n(math.MaxInt64-1)
		}
		var e int64
		switch r.Intn(6) {
		case 0:
			e = 0
		case 1:
			e = p - 1
		case 2:
			e = p
		case 3:
			e = math.MaxInt64
		case 4:
			if p < math.MaxInt64/5 {
				e = p*int64(1+r.Intn(4)) + int64(r.Intn(3)) - 1
			}
		default:
			e = r.Int63()
		}
		if e < 0 {
			e = 0
		}
		expected := uint64(f) * uint64(e/p)
		interval := uint64(p / f)
		var h uint64
		switch r.Intn(8) {
		case 0:
			h = 0
		case 1:
			h = expected - 1
		case 2:
			h = expected
		case 3:
			h = expected + 1
		case 4:
			h = math.MaxUint64
		default:
			if interval > 0 {
				h = math.MaxInt64/interval + uint64(r.Intn(3)) - 1 // the overflow guard's edge
			} else {
				h = r.Uint64()
			}
		}
		var w time.Duration
		var s bool
		panicked := func() (bad bool) {
			defer func() {
				if recover() != nil {
					bad = true
				}
			}()
			w, s = vegeta.ConstantPacer{Freq: int(f), Per: time.Duration(p)}.Pace(time.Duration(e), h)
			return false
		}()
		if panicked {
			w, s = -1, true // a value the transcription never yields: the point will not conform
		}
		pts = append(pts, pt{f, p, e, h, int64(w), s})
	}
	var sb []byte
	sb = append(sb, "------------------------------- MODULE Pts -------------------------------\n"...)
	sb = append(sb, "\\* generated by harness/c01_test.go (TestDrv_C01Points): real ConstantPacer.Pace results\n"...)
	sb = append(sb, "EXTENDS Integers, Sequences\n\n\\* @type: Seq({f: Int, p: Int, e: Int, h: Int, w: Int, s: Bool});\nPts == <<\n"...)
	for i, q := range pts {
		sep := ","
		if i == len(pts)-1 {
			sep = ""
		}
		b := "FALSE"
		if q.s {
			b = "TRUE"
		}
		sb = append(sb, fmt.Sprintf("  [f |-> %d, p |-> %d, e |-> %d, h |-> %d, w |-> %d, s |-> %s]%s\n", q.f, q.p, q.e, q.h, q.w, b, sep)...)
	}
	sb = append(sb, ">>\n==========================================================================\n"...)
	must(writeFile(filepath.Join(dir, "Pts.tla"), sb))
	// the same points in chunks of 150 (Pts_0.tla, Pts_1.tla, ...), each again a module called Pts: Apalache's time grows
	// faster than linearly with the number of points, so the orchestrator checks chunk by chunk
	for c := 0; c*150 < len(pts); c++ {
		end := (c + 1) * 150
		if end > len(pts) {
			end = len(pts)
		}
		var cb []byte
		cb = append(cb, "------------------------------- MODULE Pts -------------------------------\nEXTENDS Integers, Sequences\n\n\\* @type: Seq({f: Int, p: Int, e: Int, h: Int, w: Int, s: Bool});\nPts == <<\n"...)
		for i, q := range pts[c*150 : end] {
			sep := ","
			if i == end-c*150-1 {
				sep = ""
			}
			b := "FALSE"
			if q.s {
				b = "TRUE"
			}
			cb = append(cb, fmt.Sprintf("  [f |-> %d, p |-> %d, e |-> %d, h |-> %d, w |-> %d, s |-> %s]%s\n", q.f, q.p, q.e, q.h, q.w, b, sep)...)
		}
		cb = append(cb, ">>\n==========================================================================\n"...)
		must(writeFile(filepath.Join(dir, fmt.Sprintf("Pts_%d.tla", c)), cb))
	}
	writeJSON(filepath.Join(dir, "c01points.summary.json"), KV{"points": len(pts), "sample": fmt.Sprintf("%+v", pts[0])})
}
