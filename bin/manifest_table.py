# table consumed by bin/mkmanifest: check(pid, category, text, note, technique, design_ref) / NA[pid] = reason
check("C12", "model_checking",
      "TLC proves on the Histogram spec (all increasing bound lists up to 3-4 bounds, every latency on the grid, all add histories) "
      "that the implementation-shaped linear scan equals the contract bucket and counts partition the results; every exported "
      "case plus random bound lists, parser texts, renderings (also of the empty histogram) and the report command are run on the "
      "real code and the recorded traces are validated by TLC against the contract.",
      "trusts the harness parsers of the text/JSON renderings and Go's time.ParseDuration; latencies below the first bound are out of domain",
      "TLA+ contract + exhaustive TLC model, TLC-exported cases replayed on the code, TLC trace validation of real runs",
      "DESIGN.md section 7 (C12)")

UNDER = "check under construction in this round (specification and driver not committed yet)"
for p in ["C01", "C02", "C03", "C04", "C05", "C06", "C07", "C08", "C09", "C10", "C11", "C13", "C14", "C15", "C17", "C18", "C19", "C20"]:
    NA[p] = UNDER
NA["C16"] = ("arbitrary-byte crash/hang freedom of parsers has no abstract state machine to specify; deciding it means fuzzing, "
             "a different technique (DESIGN.md section 9)")
