# table consumed by bin/mkmanifest: check(pid, category, text, note, technique, design_ref) / NA[pid] = reason
check("C12", "model_checking",
      "TLC proves on the Histogram spec (all increasing bound lists up to 3-4 bounds, every latency on the grid, all add histories) "
      "that the implementation-shaped linear scan equals the contract bucket and counts partition the results; every exported "
      "case plus random bound lists, parser texts, renderings (also of the empty histogram) and the report command are run on the "
      "real code and the recorded traces are validated by TLC against the contract.",
      "trusts the harness parsers of the text/JSON renderings and Go's time.ParseDuration; latencies below the first bound are out of domain",
      "TLA+ contract + exhaustive TLC model, TLC-exported cases replayed on the code, TLC trace validation of real runs",
      "DESIGN.md section 7 (C12)")

ATTACK_NOTE = ("trusts testing/synctest virtual time (go1.26.8) and the harness's pacer/targeter/transport/consumer doubles; events at one "
               "instant race for real and the contract accepts any order; Stop stress and worker scheduling are real-time (probabilistic)")
ATTACK_TECH = "TLA+ contract monitor + exhaustive TLC model of the attack loop (refinement via monitor), TLC-exported scripts replayed in synctest bubbles, TLC trace validation"
check("C02", "model_checking",
      "Attack.tla (one action per channel operation / critical section of Attacker.Attack, Stop, attack, hit) is explored exhaustively by TLC "
      "for every (workers, max-workers) pair up to 3, two concurrent Stop callers, targeter failure, durations, pacer stop, slow consumers; "
      "the AttackContract monitor (SeqExact, CloseOnce/CloseAfterAll, OneInitiator, NoLeak, Ends) runs beside it and never rejects, the "
      "liveness clause holds under fairness and the historic two-step Stop is shown to violate it. The real Attacker then runs thousands of "
      "TLC-exported and random timed scripts in virtual time plus a real-time Stop stress; every recorded run is validated by TLC against the contract. "
      "The command's result pump (Pump.tla: two-stage signal handling) is model-checked and bound to the real processAttack by scripted runs and by "
      "real attacks behind it with signals during pacing and wind-down; a panic of an attack goroutine counts as a violation.",
      ATTACK_NOTE, ATTACK_TECH, "DESIGN.md section 5 (C02), Appendix A")
check("C03", "model_checking",
      "Same model and bubbles as C02, validated against the Cap and Eager clauses: in-flight (targeter calls minus results taken) never "
      "exceeds max-workers at any settled instant (one-event slack between), and a released hit whose wait is over has started unless all "
      "capacity is busy; scripts biased to slow transports/consumers and initial workers below/at/above the maximum. The runs of the exported "
      "scripts are additionally validated against Attack.tla itself (internal actions as silent steps): a mismatch is reported as model drift. The command-line anchor is covered end to end: AttackCmd.tla states what the attack command's flags mean for the requests an in-process loopback server sees and for the results written; TLC exports its cases and every real run is validated against it. "
      "The worker accounting is also proved for EVERY bound and initial count: WorkerPool.tla (a counting abstraction) has an inductive invariant "
      "implying busy <= max-workers and 'the loop blocks with nobody to take the tick only when all permitted workers are busy', discharged by "
      "Apalache over unbounded integers, and TLC checks that Attack.tla refines WorkerPool.tla.",
      ATTACK_NOTE, ATTACK_TECH + "; Apalache inductive invariant (unbounded parameters) + TLC refinement check", "DESIGN.md section 5 (C03), Appendix A, section 12.6")
check("C04", "model_checking",
      "Same model and bubbles, validated against PaceArgs (hits = 0,1,2,.., elapsed exact and non-decreasing), ObeyWait (no start before the "
      "wait returned for it), Deadline (never consulted after the duration), PacerStop and Ends; adversarial scripted pacers and durations; plus "
      "real-time runs (lower bounds only) under both runtime timer-channel semantics (default and GODEBUG=asynctimerchan=1).",
      ATTACK_NOTE, ATTACK_TECH, "DESIGN.md section 4 (C04), Appendix A")

check("C10", "model_checking",
      "Metrics.tla states Reference(bag) (the documented definitions) and the accumulators of Metrics.Add/Close; TLC checks on all sequences "
      "of up to 4 results over a value grid (zero latencies, equal/reversed timestamps, code/error/byte mixes) with Close between any two "
      "additions that the accumulators equal the reference, and that the historic Min==0 rule does not. The real Metrics is then driven with "
      "large multisets in four orders with random intermediate Close calls, through the JSON reporter and the report command; TLC validates "
      "every Close against the reference in BigNat arithmetic. ReportLoop.tla models the loop of the report command (ticks, slow input, interrupt): "
      "TLC checks that periodic reports are growing prefixes and the last one is whole unless interrupted; runs of the real command with -every "
      "over a named pipe fed in bursts, with and without SIGINT, are validated against it.",
      "float fields within 1e-9 abs + 1e-9 rel of the exact rational, mean latency within 1ns + 1e-12 rel; domain: timestamps 1970-2200, latency sums < 2^63",
      "TLA+ reference vs accumulator model (TLC exhaustive), TLC trace validation of real Add/Close histories", "DESIGN.md section 7 (C10)")
check("C11", "exploration",
      "Trace validation only: the percentiles the real estimator reports for many multisets (7 shapes, 3 arrival orders, 1..1e5 samples) "
      "are checked by TLC against the Quantiles acceptance predicate (ordering chain, rank-error bound from driver-side rank counts, all-equal, "
      "hdrplot column non-decreasing). No design model: t-digest is a third-party numeric estimator.",
      "rank counts are computed by the harness on its own sorted copy; sampled inputs only",
      "TLA+ acceptance predicate, TLC trace validation of reported percentiles", "DESIGN.md section 7 (C11)")

check("C14", "model_checking",
      "TargetsContract.tla is the reference grammar and merge; Targets.tla transcribes the peeking line scanner of NewHTTPTargeter and models Go "
      "slices with capacity for the default-header merge. TLC checks for every sequence of line kinds up to length 5 (7 thorough) that the "
      "scanner decodes each well-formed file to the reference blocks, explores the merge for any spare capacity and up to 3-4 targets "
      "(Independent), and shows that both historic defects violate these. Every exported sequence and random http/JSON documents are decoded "
      "by the real targeters (lazy, eager, static), earlier targets re-inspected after every call, and the traces validated by TLC. The command-line anchor is covered end to end: AttackCmd.tla states what the attack command's flags mean for the requests an in-process loopback server sees and for the results written; TLC exports its cases and every real run is validated against it.",
      "well-formed = the reference grammar (blocks with headers end at a blank line/EOF; no blank between header key and colon; JSON lines newline-terminated as the pinned test requires)",
      "TLA+ reference grammar vs scanner transcription (TLC exhaustive over line-kind sequences), exported cases replayed, TLC trace validation",
      "DESIGN.md section 8 (C14)")

check("C01", "model_checking",
      "Pacer.tla transcribes ConstantPacer.Pace exactly and closes the loop around it with arbitrary stalls; TLC explores every stall history for "
      "all small parameter sets (negative, zero, overflow edge with a small MaxInt) and checks Upper, Lower, WaitOnlyWhenAhead, StopRules, NoWrap, "
      "and that both historic defects violate them. Apalache proves the arithmetic clauses for the whole int64/uint64 range and checks recorded real "
      "results at extreme points against the transcription. Closed-loop runs of the real constant, sine and linear pacers over the parameter grids "
      "under three stall histories are validated by TLC (BigNat arithmetic; sine/linear against schedule bounds from the closed-form integral).",
      "sine/linear schedule values come from the driver's float64 evaluation of the documented integral; linear pacer restricted to its sane domain; "
      "Apalache/Z3 trusted for the 64-bit arithmetic",
      "TLA+ transcription + closed-loop contract (TLC exhaustive), Apalache symbolic int64 check, TLC trace validation of closed-loop runs",
      "DESIGN.md section 4 (C01)")

STREAM_TECH = "TLA+ contract, TLC trace validation of real codec runs; model of DecoderFor / round-robin decoder checked by TLC"
check("C07", "exploration",
      "Codec.tla fixes the documented CSV column order/units and JSON field names; streams of random results over the whole representable domain "
      "are encoded and decoded by each real codec and read by an independent reader of the documented layout written in the harness; TLC "
      "validates every trace: decoded sequence equals the encoded one then end-of-stream, and every CSV column / JSON member equals the field "
      "the documentation assigns to it (renderings by reflection over Result, so a new field is included automatically).",
      "byte-level fidelity is sampled, not explored; nil/empty headers and bodies identified; no CR in text; header values without outer blanks",
      "TLA+ layout contract, TLC trace validation of real encode/decode runs plus an independent layout reader", "DESIGN.md section 6 (C07)")
check("C08", "model_checking",
      "Streams.tla models DecoderFor at byte granularity (tee buffer, trial decoders with read-ahead, replay); TLC checks for all small streams, "
      "encodings and read-ahead amounts that nothing consumed while sniffing is lost or replayed twice and that two broken variants fail. The real "
      "DecoderFor runs on real streams through chunking readers (1 byte .. whole, records larger than the buffers) and on junk inputs; all format "
      "chains up to length 3 (4 thorough) run through the in-process encode command; TLC validates every trace.",
      "junk inputs are a fixed family plus random bytes; chunking reader returns fixed-size chunks", STREAM_TECH, "DESIGN.md section 6 (C08)")
check("C09", "fault_enumeration",
      "Exhaustive over crash points: every byte offset of generated gob and JSON streams (quick: strided above 8 KiB, but every offset within 70 "
      "bytes of each record boundary) and every record boundary of CSV streams, each decoded with a whole-buffer and a one-byte reader; TLC checks "
      "each outcome against the truncation contract (exactly the completely written records, then EOF/error; frames come from the bytes written per "
      "Encode call, so each call is one whole record).",
      "streams of 1-6 heterogeneous records with bodies up to 70 KB; a decoded record is matched with the original by full field comparison",
      "fault enumeration over all cut offsets, outcomes validated by TLC against the TLA+ truncation contract", "DESIGN.md section 6 (C09)")
check("C13", "model_checking",
      "Streams.tla transcribes NewRoundRobinDecoder; TLC checks for every vector of input lengths (0..3)^k, k<=4, that it refines the union "
      "contract (each record once, per-input order, EOF only when all are exhausted). Real splits into 1-6 files of unequal lengths and mixed "
      "encodings are decoded by the library decoder, by decoder(files), the encode command and all report types (report over the files = report "
      "over their union on the exact fields); TLC validates the traces.",
      "report equality excludes estimator percentiles (order dependent, C11); plain error texts in the report comparison", STREAM_TECH, "DESIGN.md section 6 (C13)")

check("C17", "model_checking",
      "Plot.tla transcribes labeledSeries.add (buffer by sequence number, release in order, origin at sequence 0, monotonic check) and states the "
      "contract (one point per result at x = floor((ts-ts0)/1ms), per attack and label); TLC checks every arrival permutation of every result set "
      "up to 4 (5 thorough) results. Lttb.tla states the Downsample contract and checks the exact bucket arithmetic for all (count, threshold) up to "
      "64. The real Downsample runs for every such pair with an instrumented iterator and random pairs to 5000; the real Plot is fed result sets in "
      "three arrival orders, with and without downsampling; rows from Plot.data() and from the HTML of the plot command are validated by TLC.",
      "requires timestamps non-decreasing in sequence number (C05); float x/y converted back to integer ms/ns by rounding",
      "TLA+ contract + transcription of labeledSeries.add (TLC exhaustive over permutations), exhaustive (count,threshold) replay, TLC trace validation",
      "DESIGN.md section 7 (C17)")

check("C20", "model_checking",
      "Prom.tla keeps, per label set, the byte counters, the latency histogram (count, sum, cumulative buckets) and per message the failure counter; "
      "TLC checks for every sequence of up to 3 observations over a small domain that the state equals the direct sums, and that the historic "
      "never-incremented failure counter does not. The real prom.Metrics observes up to 10^4 results sequentially and from 16 goroutines; the "
      "gathered registry is compared by TLC with the sums (BigNat). The command-line anchor is covered end to end: AttackCmd.tla states what the attack command's flags mean for the requests an in-process loopback server sees and for the results written; TLC exports its cases and every real run is validated against it.",
      "client_golang's registry and histogram are trusted as the observation interface; histogram sum within 1 ns per sample",
      "TLA+ state machine vs direct sums (TLC exhaustive), TLC trace validation of gathered registries", "DESIGN.md section 7 (C20)")

check("C19", "model_checking",
      "Flags.tla gives the documented meaning of each flag as a function of the token structure; TLC enumerates the -rate grammar (183 cases: all units, "
      "multiples, 0/infinity, malformed shapes) and exports it; every case and random ones are rendered as text and applied through the real flag.Value "
      "types of package main (also after an earlier -rate flag, with/without -max-workers, printed form parsed back), as are repeated -header flags, "
      "-max-body spellings, -connect-to, -dns-ttl and -resolvers (dialled); TLC checks every stored value against the specification. The command-line anchor is covered end to end: AttackCmd.tla states what the attack command's flags mean for the requests an in-process loopback server sees and for the results written; TLC exports its cases and every real run is validated against it.",
      "flag values are observed through the verif-tagged in-process driver; the pacer handed to the attacker is taken to be the stored rate",
      "TLA+ grammar/meaning enumeration by TLC, exported cases replayed on the real flag parsers, TLC trace validation", "DESIGN.md section 8 (C19)")

check("C05", "model_checking",
      "Attack.tla assigns sequence number and timestamp in one action (the seqmu critical section); TLC proves OrderAgree over all interleavings of "
      "the bounded model and exhibits the inversion when the timestamp is read in a separate step with real-time clock advance. The real Attacker is "
      "stressed in real time (workers 1..512, max-workers below/at/above, unlimited and 200k/s rates, jittered transports, with and without -race); "
      "all results of each attack, sorted by sequence number, are validated by TLC (BigNat ns): order agreement, start <= ts <= transport entry, "
      "latency >= transport time, end = ts + latency. Race-detector reports in the hit path count as violations.",
      "real scheduling: detection of a split critical section is probabilistic; the attack's start is bounded by a driver-side instant",
      "TLA+ model invariant (TLC exhaustive) + TLC trace validation of real-time stress runs, Go race detector", "DESIGN.md section 5 (C05)")
check("C06", "model_checking",
      "Hit.tla transcribes the hit path as a case analysis with fault points (targeter/request-build/transport/redirect-limit/body-read failures, "
      "statuses, body sizes, max-body, header sets, chunked, attack name); TLC enumerates 5441 cases and exports them; each is run as one hit of the "
      "real Attacker through the real http.Client with a fake RoundTripper and recording bodies, and TLC checks the observed result, wire request and "
      "body reads/Close against HitOK (quick: a seed-dependent third of the response-side product plus all other cases and random large-body cases).",
      "the transport is a fake http.RoundTripper (the redirect logic of net/http is real); failed exchanges are held only to the failure clauses",
      "TLA+ case analysis enumerated by TLC, exported cases replayed on the real hit path, TLC trace validation", "DESIGN.md section 5 (C06)")

check("C15", "model_checking",
      "TargeterConc.tla models a call as Call / Lin (inside the targeter's critical section) / Decode (outside) / Ret for the three locking disciplines of "
      "the code; TLC explores every interleaving of 3 callers over 4 targets: each target exactly once, no mixture, exhaustion for good, static rotation "
      "floor/ceil; a shared line buffer is shown to break it. 1..64 goroutines then draw from the real http/JSON/static targeters (documents larger than "
      "the read buffer), built without and with -race; every draw is classified and the run validated by TLC; race reports count as violations.",
      "real scheduling samples interleavings; a target is 'mixed' when its URL/method/headers/body do not agree on one input id",
      "TLA+ linearization model (TLC exhaustive) + TLC trace validation of concurrent runs, Go race detector", "DESIGN.md section 8 (C15)")

check("C18", "model_checking",
      "Dial.tla models the cache entry as a shared sequence, a dial as load / shuffle / in-place compaction to one address per family, and the "
      "ConnectTo counter; TLC explores 2 dialers x 3 dials over a 2+1 address set: the entry stays intact, each attempt dials one resolved address "
      "per family, rotation is even; the historic aliasing and a non-atomic counter are shown to fail. The real option stack (recording DialContext "
      "at the bottom, DNSCaching / ConnectTo on top, in-process DNS server as net.DefaultResolver) performs 600 sequential and 800 concurrent hits per "
      "address set, rotation runs incl. interleaved mapped keys, and all option orders concurrently; TLC validates every dial; -race reports count. The command-line anchor is covered end to end: AttackCmd.tla states what the attack command's flags mean for the requests an in-process loopback server sees and for the results written; TLC exports its cases and every real run is validated against it.",
      "statistical clause sized for < 1e-12 false alarms; dials are recorded and refused (no connection); clauses on address choice only for the documented option order",
      "TLA+ shared-slice model (TLC exhaustive) + TLC trace validation of recorded dials, Go race detector", "DESIGN.md section 8 (C18)")

UNDER = "check under construction in this round (specification and driver not committed yet)"
for p in []:
    NA[p] = UNDER
NA["C16"] = ("arbitrary-byte crash/hang freedom of parsers has no abstract state machine to specify; deciding it means fuzzing, "
             "a different technique (DESIGN.md section 9)")
