"""C05 - sequence order and timestamp order of results agree (spec/attack/ResultsTrace.tla, Attack.tla)."""
import glob, json, os
from . import core
from .main import report_rejections, report_races
from .attackeng import collect_cases


def signature(lines, off):
    ev = json.loads(lines[off - 1]) if off <= len(lines) else {}
    head = json.loads(lines[0])
    return "%s:workers=%s:maxw=%s:rate=%s" % (ev.get("e"), head.get("workers"), head.get("maxw"), head.get("rate"))


def run(ctx):
    # design level: one critical section => OrderAgree; a separate timestamp step => inversion (real-time mode)
    ctx.model_check("attack", "Attack", "MCAttack.cfg", timeout=3000, coverage=ctx.thorough)
    r = ctx.model_check("attack", "Attack", "MCAttackSplitTs.cfg", expect_ok=False)
    if "Invariant OrderAgree is violated" not in r["out"]:
        raise core.Infra("sensitivity: taking the timestamp in a separate step no longer violates OrderAgree in the model")
    ctx.coverage["sensitivity"] = ["timestamp read outside the sequence-number critical section violates OrderAgree in the model"]
    n_tot, ev_tot, res_tot, samples = 0, 0, 0, []
    for race in (False, True):
        vh = ctx.build_harness(race=race)
        out = ctx.sub("c05race" if race else "c05")
        per = (2000000 if ctx.thorough else 100000) // (4 if race else 1)
        races = []
        ctx.run_driver(vh, "TestDrv_C05", out, {"VERIF_C05_RESULTS": per}, timeout=3000, race_reports=races if race else None)
        report_races(ctx, races, "data race in the hit path while many workers run (sequence number / timestamp critical section)")
        if races and not os.path.exists(os.path.join(out, "c05.summary.json")):
            continue
        cases = collect_cases(glob.glob(os.path.join(out, "c05_*.ndjson")))
        n, nev, rej = core.validate_cases(ctx, "attack", "ResultsTrace", "ResultsTrace.cfg", None, cases=cases, nshards=core.NCPU,
                                          prefix="race" if race else "")
        report_rejections(ctx, rej, signature, "results of a real attack rejected by the C05 clauses" + (" (race build)" if race else ""))
        summ = json.load(open(os.path.join(out, "c05.summary.json")))
        n_tot, ev_tot, res_tot = n_tot + n, ev_tot + nev, res_tot + summ["results"]
        samples = samples or summ["samples"]
    ctx.coverage.update({"traces_validated_against_impl": n_tot, "trace_events": ev_tot, "results_checked": res_tot, "samples": samples,
                         "rule": "real-time attacks (no virtual time: the property is about the Go scheduler) with workers 1..512, max-workers below/at/"
                                 "above, unlimited and 200k/s rates, instantaneous and jittered in-memory transports, built without and with -race; "
                                 "all results of each attack sorted by sequence number and validated by TLC"})
    ctx.assumptions += ["detection of a split critical section is probabilistic (real scheduling on 16 cores)",
                        "the attack's start is bounded below by an instant the driver takes just before calling Attack"]
    return "model_checking"
