"""C18 - connections spread over all resolved and mapped addresses, race-free (spec/dial)."""
import json, os
from . import core, acmd
from .main import report_rejections, report_races


def signature(lines, off):
    ev = json.loads(lines[off - 1]) if off <= len(lines) else {}
    head = json.loads(lines[0])
    fams = "".join(str(x.get("fam")) for x in head.get("resolved", []))
    return "%s:%s:sequential=%s:families=%s:replacements=%d" % (ev.get("e"), head.get("mode"), head.get("sequential"), fams, len(head.get("mapped", [])))


def run(ctx):
    ctx.model_check("dial", "MCDial", "MCDial.cfg")
    sens = []
    for cfg, needle, what in (("MCDialShared.cfg", "Invariant EntryIntact is violated", "shuffling/compacting the shared cache entry in place collapses it"),
                              ("MCDialNonAtomic.cfg", "Invariant RotationOK is violated", "a non-atomic rotation counter loses updates with two dialers")):
        r = ctx.model_check("dial", "MCDial", cfg, expect_ok=False)
        if needle not in r["out"]:
            raise core.Infra("sensitivity configuration %s no longer fails" % cfg)
        sens.append(what + ": found by TLC")
    ctx.coverage["sensitivity"] = sens
    tot_n = tot_ev = 0
    samples = []
    for race in (False, True):
        vh = ctx.build_harness(race=race)
        out = ctx.sub("c18race" if race else "c18")
        races = []
        ctx.run_driver(vh, "TestDrv_C18", out, timeout=3000, race_reports=races if race else None)
        report_races(ctx, races, "data race in the dial path under concurrent hits")
        if not os.path.exists(os.path.join(out, "c18.summary.json")):
            continue
        n, nev, rej = core.validate_cases(ctx, "dial", "DialTrace", "DialTrace.cfg", os.path.join(out, "c18.ndjson"), prefix="race" if race else "")
        report_rejections(ctx, rej, signature, "dial trace rejected by the C18 contract" + (" (race build)" if race else ""))
        if not rej and not race:
            # growth: the cache refresher's life cycle (Dial!RefresherStops) - documented behaviour, reported as drift only
            ref = [c for c in core.split_cases(os.path.join(out, "c18.ndjson")) if '"mode":"refresh"' in c[1][0]]
            _, _, rrej = core.validate_cases(ctx, "dial", "DialTrace", "DialTraceStrict.cfg", None, cases=ref, prefix="strict")
            for start, lines, off in rrej:
                ctx.drift.append("cache refresher life cycle differs from Dial.tla (one goroutine while attacking, none after Stop, re-resolves): " + lines[off - 1].strip()[:200])
        summ = json.load(open(os.path.join(out, "c18.summary.json")))
        tot_n, tot_ev = tot_n + n, tot_ev + nev
        samples = samples or summ["samples"]
    ctx.coverage.update({"traces_validated_against_impl": tot_n, "trace_events": tot_ev, "samples": samples or ["(none)"],
                         "rule": "7 resolved address sets (1/3/8 IPv4, 2 IPv6, 3+2, 4+4, 1+1) x {DNSCaching sequential 600 hits, concurrent 64 workers, ConnectTo in "
                                 "front of DNSCaching}; ConnectTo with 1..4 replacements sequential/concurrent/unmapped; all four option orders with a refreshing "
                                 "cache under concurrency; every dial recorded by a DialContext at the bottom of the real stack; built without and with -race"})
    ctx.assumptions += ["an in-process DNS server (miekg/dns) is installed as net.DefaultResolver; dials are recorded and refused, no connection is made",
                        "'keeps being used': every resolved address is dialled in the first 300 attempts and again in the next 300 (false alarm < 1e-12)",
                        "contract clauses on address choice are asserted for the documented option order only; the reversed order is checked for races"]
    # the command-line anchor of this property: the attack command end to end against a loopback server (spec/cli/AttackCmd.tla)
    acmd.run_part(ctx)
    return "model_checking"
