"""C06 - each result faithfully describes its HTTP exchange (spec/attack/Hit.tla)."""
import json, os
from . import core
from .main import report_rejections


def signature(lines, off):
    ev = json.loads(lines[off - 1]) if off <= len(lines) else {}
    c = ev.get("c", {})
    return "%s:%s" % (ev.get("e"), json.dumps(c, sort_keys=True))


def run(ctx):
    cases = os.path.join(ctx.scratch, "c06cases.ndjson")
    ctx.model_check("attack", "MCHit", "MCHit.cfg", env={"CASES_OUT": cases}, workers=1)
    vh = ctx.build_harness()
    out = ctx.sub("c06")
    ctx.run_driver(vh, "TestDrv_C06", out, {"VERIF_CASES": cases})
    lines = open(os.path.join(out, "c06.ndjson")).readlines()
    head, rest = lines[0], lines[1:]
    chunks = [(1 + i, [head] + rest[i:i + 300]) for i in range(0, len(rest), 300)]
    n, nev, rej = core.validate_cases(ctx, "attack", "HitTrace", "HitTrace.cfg", None, cases=chunks)
    report_rejections(ctx, rej, signature, "observed hit outcome rejected by the case analysis of Hit.tla")
    summ = json.load(open(os.path.join(out, "c06.summary.json")))
    ctx.coverage.update({"traces_validated_against_impl": len(rest), "trace_events": nev, "tlc_exported_cases": summ["tlc_cases"],
                         "cases_run": summ["cases_run"], "random_cases": summ["random_cases"], "samples": summ["samples"] or ["(none)"],
                         "exhaustive": ctx.thorough,
                         "rule": "TLC enumerates the hit-path case analysis (request side: name x header set x body x chunked; early failures; response side: "
                                 "redirect chain x policy x 10 statuses x body size x read fault x max-body = 5441 cases) and exports it; each case runs one "
                                 "hit of the real Attacker through the real http.Client with a fake RoundTripper and recording bodies (quick: all request/"
                                 "failure cases, every 3rd response case at a seed-dependent offset; thorough: all), plus random cases with large bodies"})
    ctx.assumptions += ["redirect responses of the fake transport have empty bodies; the final response body is delivered in 2-byte reads"]
    # the flags that configure the hit path (-max-body, -redirects, -header, -chunked, -body, -name) as the command wires them (spec/cli/AttackCmd.tla)
    from . import acmd
    acmd.run_part(ctx, vh)
    return "model_checking"
