"""ACMD - the attack command end to end (spec/cli/AttackCmd.tla): flags -> what a loopback server sees and what is written.
Not one of the listed properties on its own; C19 ("command-line values mean what the manual says") runs it too (run_part)."""
import json, os
from . import core
from .main import report_rejections


def signature(lines, off):
    ev = json.loads(lines[off - 1]) if off <= len(lines) else {}
    c = ev.get("c", {})
    base = {"server": "plain", "trust": "na", "format": "http", "lazy": True, "bad": "none", "rate": 0, "maxw": 1, "workers": 1, "name": "", "hdr": False,
            "body": False, "chunked": False, "maxbody": -1, "redirects": "default", "keepalive": True, "timeout": "default", "connectto": False,
            "laddr": False, "prom": False, "maxconn": 0, "hosts": 1, "http2": True, "h2c": False, "hosthdr": False, "stall": False, "head": False, "lookup": False, "dnsdest": "none", "clientcert": "none", "tickets": False}
    return "AttackCmd:" + ",".join("%s=%s" % (k, c[k]) for k in sorted(c) if c[k] != base.get(k))


def run_part(ctx, vh=None, md=None):
    cases = os.path.join(ctx.scratch, "acmdcases.ndjson")
    ctx.model_check("cli", "MCAttackCmd", "MCAttackCmd.cfg", env={"CASES_OUT": cases}, workers=1)
    vh = vh or ctx.build_harness()
    md = md or ctx.build_maindrv()
    out = ctx.sub("acmd")
    ctx.run_driver(vh, "TestDrv_E2E", out, {"VERIF_MAINDRV": md, "VERIF_CASES": cases, "VERIF_FOR": ctx.pid})
    lines = open(os.path.join(out, "e2e.ndjson")).readlines()
    head, rest = lines[0], lines[1:]
    chunks = [(1 + i, [head] + rest[i:i + 12]) for i in range(0, len(rest), 12)]
    n, nev, rej = core.validate_cases(ctx, "cli", "AttackCmdTrace", "AttackCmdTrace.cfg", None, cases=chunks, prefix="acmd")
    report_rejections(ctx, rej, signature, "run of the attack command rejected by AttackCmd (what the flags mean for the requests seen and the results written)")
    summ = json.load(open(os.path.join(out, "e2e.summary.json")))
    ctx.coverage.update({"attack_command_runs": summ["runs"], "attack_command_tlc_cases": summ["tlc_cases"], "attack_command_random_cases": summ["random_cases"],
                         "attack_command_requests_seen": summ["requests_seen"], "attack_command_results_decoded": summ["results_decoded"],
                         "attack_command_samples": summ["samples"] or ["none"]})
    return len(rest), nev


def run(ctx):
    n, nev = run_part(ctx)
    ctx.coverage.update({"traces_validated_against_impl": n, "trace_events": nev})
    return "model_checking"
