"""C04 - see vf/attackeng.py and spec/attack."""
from . import attackeng


def run(ctx):
    return attackeng.run(ctx, "C04", "C04")
