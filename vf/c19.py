"""C19 - command-line values mean what the manual says (spec/cli/Flags.tla)."""
import json, os
from . import core, acmd
from .main import report_rejections


def signature(lines, off):
    ev = json.loads(lines[off - 1]) if off <= len(lines) else {}
    return "%s:%s" % (ev.get("e"), ev.get("text", ""))


def run(ctx):
    cases = os.path.join(ctx.scratch, "c19cases.ndjson")
    ctx.model_check("cli", "MCFlags", "MCFlags.cfg", env={"CASES_OUT": cases}, workers=1)
    vh = ctx.build_harness()
    md = ctx.build_maindrv()
    out = ctx.sub("c19")
    ctx.run_driver(vh, "TestDrv_C19", out, {"VERIF_CASES": cases, "VERIF_MAINDRV": md})
    # one event = one case: split into chunks that TLC validates independently
    lines = open(os.path.join(out, "c19.ndjson")).readlines()
    head, rest = lines[0], lines[1:]
    chunks = [(1 + i, [head] + rest[i:i + 200]) for i in range(0, len(rest), 200)]
    n, nev, rej = core.validate_cases(ctx, "cli", "FlagsTrace", "FlagsTrace.cfg", None, cases=chunks)
    report_rejections(ctx, rej, signature, "stored flag value rejected by the documented meaning (Flags.tla)")
    summ = json.load(open(os.path.join(out, "c19.summary.json")))
    ctx.coverage.update({"traces_validated_against_impl": len(rest), "trace_events": nev, "tlc_exported_cases_replayed": summ["tlc_cases"],
                         "rate_cases": summ["rate_cases"], "other_flag_cases": summ["other_flag_cases"], "samples": summ["samples"], "exhaustive": True,
                         "rule": "TLC enumerates the -rate grammar (every unit, bare/multiple units, N incl. 0 and 2e9, infinity, 8 malformed shapes); each "
                                 "case is rendered as text and applied with flag.Value.Set in package main (half of them after an earlier, different -rate "
                                 "flag), with and without -max-workers, and its printed form parsed back; plus random N/M, repeated -header flags, "
                                 "-max-body in every documented spelling, -connect-to tuples, -dns-ttl values and -resolvers lists (dialled over loopback UDP)"})
    ctx.assumptions += ["the pacer handed to the attacker is the stored rate (attack.go passes opts.rate)", "negative rates and N/0s are not judged",
                        "resolver addresses are loopback IPv4 so that dialling needs no network"]
    # the command-line anchor of this property: the attack command end to end against a loopback server (spec/cli/AttackCmd.tla)
    acmd.run_part(ctx, vh)
    return "model_checking"
