"""C20 - Prometheus metrics equal the sums over observed results (spec/cli/Prom.tla)."""
import json, os
from . import core, acmd
from .main import report_rejections


def signature(lines, off):
    ev = json.loads(lines[off - 1]) if off <= len(lines) else {}
    head = json.loads(lines[0])
    return "%s:n=%s:concurrent=%s" % (ev.get("e"), head.get("n"), head.get("concurrent"))


def run(ctx):
    ctx.model_check("cli", "MCProm", "MCProm.cfg")
    r = ctx.model_check("cli", "MCProm", "MCPromNoInc.cfg", expect_ok=False)
    if "Invariant Matches is violated" not in r["out"]:
        raise core.Infra("sensitivity: a failure counter that is never incremented no longer violates Matches")
    ctx.coverage["sensitivity"] = ["failure counter created but not incremented violates Matches in the model"]
    vh = ctx.build_harness()
    out = ctx.sub("c20")
    ctx.run_driver(vh, "TestDrv_C20", out)
    n, nev, rej = core.validate_cases(ctx, "cli", "PromTrace", "PromTrace.cfg", os.path.join(out, "c20.ndjson"))
    report_rejections(ctx, rej, signature, "gathered Prometheus families rejected by the Prom contract")
    summ = json.load(open(os.path.join(out, "c20.summary.json")))
    ctx.coverage.update({"traces_validated_against_impl": n, "trace_events": nev, "observations": summ["observations"],
                         "samples": summ["samples"] or ["(none)"],
                         "rule": "result sequences of 0..3000 (thorough 10^4) over 2 methods x 2 URLs x 4 codes x 4 error texts, latencies on/just "
                                 "below/just above every default bucket bound, observed sequentially and from 16 goroutines; the registry is gathered "
                                 "and every counter/histogram compared by TLC with the sums"})
    ctx.assumptions += ["concurrent observations commute: only the final Gather is compared", "histogram sum within 1 ns per sample + 1e-12 relative"]
    # the command-line anchor of this property: the attack command end to end against a loopback server (spec/cli/AttackCmd.tla)
    acmd.run_part(ctx, vh)
    return "model_checking"
