import importlib, json, os, sys, time, traceback
from . import core

EXIT_OK, EXIT_VIOLATION, EXIT_INFRA = 0, 1, 2


def load_known():
    p = os.path.join(core.VERIF, "known_findings.json")
    try:
        return json.load(open(p))
    except FileNotFoundError:
        return {"known": [], "fixed": []}


def write_evidence(ctx, level):
    cov = dict(ctx.coverage)
    cov.setdefault("samples", [])
    if not cov["samples"]:
        cov["samples"] = ["(no sample recorded)"]
    ev = {
        "property_id": ctx.pid, "tier": ctx.tier, "seed": ctx.seed, "level": level,
        "coverage": cov, "assumptions": ctx.assumptions, "wall_s": round(time.time() - ctx.t0, 1),
        "violations": len(ctx.violations), "known_findings": ctx.known, "model_drift": ctx.drift,
        "notes": ctx.notes,
    }
    edir = os.environ.get("VERIF_EVIDENCE_DIR") or os.path.join(core.VERIF, "evidence")   # bin/vmatrix / bin/vmut point this elsewhere: evidence/ is for /repo itself
    os.makedirs(edir, exist_ok=True)
    p = os.path.join(edir, ctx.pid + ".json")
    tmp = p + ".tmp"
    with open(tmp, "w") as f:
        json.dump(ev, f, indent=1, default=str)
        f.write("\n")
    os.replace(tmp, p)


def report_rejections(ctx, rejected, signature, what):
    """Turns rejected trace cases into VIOLATION / KNOWN-FINDING records and replay files."""
    known = [k for k in load_known().get("known", []) if k.get("property") == ctx.pid]
    os.makedirs(os.path.join(core.VERIF, "replays"), exist_ok=True)
    for n, (start, lines, off) in enumerate(rejected):
        sig = signature(lines, off) if signature else "line"
        if len(ctx.violations) >= 20:        # enough to act on; the count in the evidence is complete
            ctx.coverage["violations_not_listed"] = ctx.coverage.get("violations_not_listed", 0) + 1
            continue
        hit = next((k for k in known if k.get("key") == sig), None)
        if hit:
            ctx.known.append({"key": sig, "what": hit.get("what", "")})
            continue
        path = os.path.join(core.VERIF, "replays", "%s-%s-seed%d-%d.json" % (ctx.pid, ctx.tier, ctx.seed, len(ctx.violations)))
        with open(path, "w") as f:
            json.dump({"property": ctx.pid, "tier": ctx.tier, "seed": ctx.seed, "what": what, "signature": sig,
                       "rejected_at_event": off, "offending_event": lines[off - 1].strip() if off <= len(lines) else None,
                       "matched_prefix_len": off - 1, "trace": [l.strip() for l in lines[:off + 3]],
                       "trace_truncated": len(lines) > off + 3,
                       "replay": "VERIF_SEED=%d bin/vcheck %s %s" % (ctx.seed, ctx.pid, ctx.tier)}, f, indent=1)
            f.write("\n")
        ctx.violations.append((sig, path, what))


def report_races(ctx, reports, what):
    """A data race reported by the Go race detector in the code under test is a violation with the report as replay."""
    os.makedirs(os.path.join(core.VERIF, "replays"), exist_ok=True)
    known = [k for k in load_known().get("known", []) if k.get("property") == ctx.pid]
    for rep in reports[:5]:
        frames = [ln.strip() for ln in rep.splitlines() if "vegeta/v12" in ln or ln.strip().startswith(core.REPO + "/")]
        if not frames:
            # no frame of the code under test in either stack: a race inside the harness or a library, not a verdict
            ctx.notes.append("race report without a frame of %s ignored: %s" % (core.REPO, " ".join(rep.split()[:40])))
            continue
        sig = "data race: " + " | ".join(frames[:2])[:240]
        hit = next((k for k in known if k.get("key") == sig), None)
        if hit:
            ctx.known.append({"key": sig, "what": hit.get("what", "")})
            continue
        path = os.path.join(core.VERIF, "replays", "%s-%s-seed%d-race%d.json" % (ctx.pid, ctx.tier, ctx.seed, len(ctx.violations)))
        with open(path, "w") as f:
            json.dump({"property": ctx.pid, "tier": ctx.tier, "seed": ctx.seed, "what": what, "signature": sig, "race_report": rep,
                       "replay": "VERIF_SEED=%d bin/vcheck %s %s" % (ctx.seed, ctx.pid, ctx.tier)}, f, indent=1)
        ctx.violations.append((sig, path, what))


def report_crashes(ctx, reports, what):
    """The driver died because a goroutine of the code under test panicked: a violation with the crash output as replay."""
    os.makedirs(os.path.join(core.VERIF, "replays"), exist_ok=True)
    for rep in reports[:3]:
        head = rep.splitlines()[0][:200]
        frames = [ln.strip() for ln in rep.splitlines() if ln.strip().startswith(core.REPO + "/")]
        sig = "crash: %s at %s" % (head, frames[0].split(" ")[0] if frames else "?")
        path = os.path.join(core.VERIF, "replays", "%s-%s-seed%d-crash%d.json" % (ctx.pid, ctx.tier, ctx.seed, len(ctx.violations)))
        with open(path, "w") as f:
            json.dump({"property": ctx.pid, "tier": ctx.tier, "seed": ctx.seed, "what": what, "signature": sig, "crash": rep,
                       "replay": "VERIF_SEED=%d bin/vcheck %s %s" % (ctx.seed, ctx.pid, ctx.tier)}, f, indent=1)
        ctx.violations.append((sig, path, what))


def main(argv):
    if len(argv) < 2:
        print(__doc__ or "usage: vcheck <property> quick|thorough [--replay path]", file=sys.stderr)
        return EXIT_INFRA
    pid = argv[0]
    tier = argv[1]
    if tier == "--replay":
        rp = json.load(open(argv[2]))
        tier = rp.get("tier", "quick")
        os.environ["VERIF_SEED"] = str(rp.get("seed", 1))
    elif "--replay" in argv:
        rp = json.load(open(argv[argv.index("--replay") + 1]))
        os.environ["VERIF_SEED"] = str(rp.get("seed", 1))
    if os.environ.get("VERIF_TIER") in ("quick", "thorough") and tier not in ("quick", "thorough"):
        tier = os.environ["VERIF_TIER"]
    try:
        mod = importlib.import_module("vf." + pid.lower())
    except ImportError:
        print("no check for %s" % pid, file=sys.stderr)
        return EXIT_INFRA
    ctx = core.Ctx(pid, tier)
    import glob
    for old in glob.glob(os.path.join(core.VERIF, "replays", "%s-%s-seed%d-*.json" % (pid, tier, ctx.seed))):
        os.remove(old)      # replay files of an earlier run with the same parameters
    try:
        level = mod.run(ctx)
    except core.CodeCrash as e:
        report_crashes(ctx, [e.stack], "a goroutine of the code under test panicked and took the driver down")
        level = "model_checking"
    except core.Infra as e:
        print("INFRA-ERROR property=%s %s" % (pid, e), file=sys.stderr)
        return EXIT_INFRA
    except Exception:
        traceback.print_exc()
        print("INFRA-ERROR property=%s internal error" % pid, file=sys.stderr)
        return EXIT_INFRA
    write_evidence(ctx, level)
    for k in ctx.known:
        print("KNOWN-FINDING: property=%s %s %s" % (pid, k["key"], k["what"]))
    for d in ctx.drift:
        print("MODEL-DRIFT property=%s %s" % (pid, d), file=sys.stderr)
    for sig, path, what in ctx.violations:
        print("VIOLATION property=%s replay=%s" % (pid, path))
        print("  %s: %s" % (what, sig), file=sys.stderr)
    if ctx.violations:
        return EXIT_VIOLATION
    print("OK property=%s tier=%s seed=%d wall=%.1fs" % (pid, tier, ctx.seed, time.time() - ctx.t0))
    return EXIT_OK
