"""Result-stream family: C07 (codec round trip + documented layout), C08 (auto-detection, transcoding),
C09 (truncated stream = clean prefix), C13 (several inputs = union).  spec/stream."""
import glob, json, os
from . import core
from .main import report_rejections
from .attackeng import collect_cases


def signature(lines, off):
    ev = json.loads(lines[off - 1]) if off <= len(lines) else {}
    head = json.loads(lines[0])
    extra = ""
    if ev.get("e") == "Cut":
        extra = ":reader=%s" % ev.get("reader")
    return "%s:%s:%s%s%s" % (ev.get("e"), head.get("kind"), head.get("codec", head.get("via", "")), extra,
                             (":layout=" + ev["layout"]) if "layout" in ev else "")


LEVEL = {"C07": "exploration", "C08": "model_checking", "C09": "fault_enumeration", "C13": "model_checking"}


def run(ctx, prop):
    if prop in ("C08", "C13"):
        ctx.model_check("stream", "MCStreams", "MCStreams.cfg")
        for cfg in ("MCStreamsReplayTwice.cfg", "MCStreamsDropAhead.cfg"):
            r = ctx.model_check("stream", "MCStreams", cfg, expect_ok=False)
            if "Invariant DFRefines is violated" not in r["out"]:
                raise core.Infra("sensitivity configuration %s no longer fails" % cfg)
        ctx.coverage["sensitivity"] = ["replaying the sniffed prefix twice / dropping read-ahead bytes violate DFRefines in the model"]
    if prop == "C07":
        ctx.model_check("stream", "MCCodec", "MCCodec.cfg")
    vh = ctx.build_harness()
    out = ctx.sub(prop.lower())
    env = {}
    if prop in ("C08", "C13"):
        env["VERIF_MAINDRV"] = ctx.build_maindrv()
    ctx.run_driver(vh, "TestDrv_" + prop, out, env, timeout=3000)
    cases = collect_cases(glob.glob(os.path.join(out, prop.lower() + "*.ndjson")))
    n, nev, rej = core.validate_cases(ctx, "stream", "StreamsTrace", "StreamsTrace.cfg", None, cases=cases)
    report_rejections(ctx, rej, signature, "stream trace rejected by the %s contract" % prop)
    summ = json.load(open(os.path.join(out, prop.lower() + ".summary.json")))
    ctx.coverage.update({"traces_validated_against_impl": n, "trace_events": nev, "samples": summ.pop("samples", None) or ["(none)"]})
    ctx.coverage.update({k: v for k, v in summ.items() if isinstance(v, int)})
    if prop == "C08":   # its anchors include the loop of the encode command (spec/cli/CmdLoop.tla)
        from . import rloop
        rloop.run_cmd_part(ctx, vh, prove=True)
    if prop == "C09":   # what an interrupted encode, or an encode over a cut input, leaves in its output file
        from . import rloop
        rloop.run_cmd_part(ctx, vh)
    if prop == "C07":
        ctx.coverage.update({"evaluations": summ["records"], "distinct_nontrivial": summ["records"],
                             "rule": "one evaluation = one random result (full integer ranges, ns timestamps 1970-2198, texts with quotes/commas/"
                                     "newlines/blanks/UTF-8 but no CR, nil/empty/random bodies up to 70 KB, nil/empty/multi-valued canonical headers) "
                                     "encoded in a stream of 1..50 by one codec, decoded back, and read by the independent CSV/JSON layout reader; "
                                     "records are distinct random draws, all non-trivial (12 fields compared)"})
        ctx.assumptions += ["nil and empty header maps / bodies are identified (gob cannot distinguish them)", "text fields contain no CR (encoding/csv normalises CRLF)",
                            "header values have no leading/trailing blanks (MIME parsing trims them)"]
    if prop == "C09":
        ctx.coverage.update({"evaluations": summ["cuts"], "distinct_nontrivial": summ["cuts"], "exhaustive": False,
                             "rule": "one evaluation = decoding one prefix [0,cut) of one generated stream (1-6 heterogeneous records, bodies up to 70 KB) "
                                     "with a whole-buffer or one-byte reader; gob/JSON: every byte offset of streams up to 8 KiB (quick) / 16 KiB (thorough), strided beyond "
                                     "but always every offset within 70 bytes of each record boundary, CSV: every record boundary; all (stream, cut, reader) triples are distinct"})
    return LEVEL[prop]
