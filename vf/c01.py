"""C01 - pacers keep the hit count on their declared schedule (spec/pacer)."""
import glob, json, os
from . import core
from .main import report_rejections
from .attackeng import collect_cases


def signature(lines, off):
    ev = json.loads(lines[off - 1]) if off <= len(lines) else {}
    head = json.loads(lines[0])
    return "%s:%s:stall_mode=%s" % (ev.get("e"), head.get("text"), head.get("stall_mode"))


def run(ctx):
    ctx.model_check("pacer", "MCPacer", "MCPacerThorough.cfg" if ctx.thorough else "MCPacer.cfg", timeout=3000)
    sens = []
    for cfg, what in (("MCPacerOldGuard.cfg", "overflow guard off by one wraps"), ("MCPacerOldDiv.cfg", "zero interval divides by zero")):
        r = ctx.model_check("pacer", "MCPacer", cfg, expect_ok=False)
        if "Invariant NoBad is violated" not in r["out"]:
            raise core.Infra("sensitivity configuration %s no longer fails" % cfg)
        sens.append(what + ": found by TLC")
    ctx.coverage["sensitivity"] = sens
    vh = ctx.build_harness()
    out = ctx.sub("c01")
    ctx.run_driver(vh, "TestDrv_C01", out)
    cases = collect_cases(glob.glob(os.path.join(out, "c01_*.ndjson")))
    n, nev, rej = core.validate_cases(ctx, "pacer", "PacerTrace", "PacerTrace.cfg", None, cases=cases, nshards=core.NCPU)
    report_rejections(ctx, rej, signature, "closed-loop pacer trace rejected by the C01 clauses")
    if not rej:
        # implementation layer: the constant pacer's wait equals the transcription exactly (drift only)
        const = [c for c in cases if '"kind":"constant"' in c[1][0]]
        n2, _, rej2 = core.validate_cases(ctx, "pacer", "PacerTrace", "PacerTraceExact.cfg", None, cases=const, nshards=core.NCPU, prefix="x", max_reject=1)
        for start, lines, off in rej2[:3]:
            ctx.drift.append("constant pacer differs from the transcription of Pacer.tla at " + signature(lines, off))
    if not ctx.violations:       # a rejected trace is the verdict; the arithmetic cross-check is only run on accepted behaviour
        apalache(ctx)
    summ = json.load(open(os.path.join(out, "c01.summary.json")))
    ctx.coverage.update({
        "traces_validated_against_impl": n, "trace_events": nev, "closed_loop_runs": summ["runs"], "consultations": summ["consultations"],
        "samples": summ["samples"],
        "rule": "closed loops (follow the pacer exactly, 500 consultations quick / 3000 thorough) for the constant pacer over the whole "
                "Freq x Per grid incl. zero, negative, MaxInt64 and sub-nanosecond intervals, sine pacers (3 periods x 5 means x amp/mean up to "
                "0.999 x 5 offsets, plus invalid configurations) and linear pacers (positive and gentle negative slopes), each under three "
                "stall histories (none, rare, frequent); quick takes every 5th loop at a seed-dependent offset plus all special parameter sets",
    })
    ctx.assumptions += ["sine/linear schedules are evaluated by the driver in float64 from the closed form of the declared integral (knife edges +-1e-6)",
                        "linear pacer domain: positive slopes, negative only with |slope| <= 0.004 rate^2 while the rate stays above 30% of its start",
                        "upper bound carries the 1 ns-per-hit quantisation allowance on both sides (DESIGN section 4)"]
    return "model_checking"


def apalache_run(ctx, d, module, inv, expect_ok=True, timeout=600):
    import subprocess, time
    t = time.time()
    try:
        r = subprocess.run(["apalache-mc", "check", "--length=0", "--inv=" + inv, "--out-dir=" + os.path.join(d, "apa-out"), module + ".tla"],
                           cwd=d, capture_output=True, text=True, timeout=timeout)
    except subprocess.TimeoutExpired:
        raise core.Infra("apalache timed out on %s %s" % (module, inv))
    out = r.stdout + r.stderr
    ok = "The outcome is: NoError" in out
    bad = "violated" in out and "Found 1 error" in out
    if not ok and not bad:
        raise core.Infra("apalache failed on %s %s:\n%s" % (module, inv, out[-2000:]))
    ctx.log("apalache %s %s: %s in %.1fs" % (module, inv, "no error" if ok else "VIOLATED", time.time() - t))
    return ok


def apalache(ctx):
    """Full int64/uint64 range: symbolic invariants of the transcription, then conformance of recorded real
    Pace results with it (the values do not fit TLC's 32-bit integers)."""
    d = ctx.spec_dir("pacer")
    obligations = []
    for inv in ("NoWrap", "StopOnlyOnOverflow", "WaitOnlyWhenAhead", "WaitFits"):
        if not apalache_run(ctx, d, "CPInt64", inv):
            raise core.Infra("the transcription CPInt64 violates %s: specification error" % inv)
        obligations.append("CPInt64." + inv)
    if apalache_run(ctx, d, "CPInt64", "OldNoWrap"):
        raise core.Infra("sensitivity: the historic overflow guard is no longer refuted by Apalache")
    out = ctx.sub("c01pts")
    ctx.run_driver(ctx.build_harness(), "TestDrv_C01Points", out)
    import shutil, glob as _glob
    ok = True
    for chunk in sorted(_glob.glob(os.path.join(out, "Pts_*.tla"))):
        shutil.copy(chunk, os.path.join(d, "Pts.tla"))
        ok = apalache_run(ctx, d, "CPPoints", "Conform", timeout=900) and ok
    pts = json.load(open(os.path.join(out, "c01points.summary.json")))
    ctx.coverage["apalache"] = {"symbolic_invariants_int64": obligations, "historic_guard_refuted": True,
                                "recorded_points_checked": pts["points"], "points_conform": ok}
    if not ok:
        # the real function disagrees with the transcription at a recorded point: which clause, if any, is broken
        # is decided by the trace check above; here it is model drift
        ctx.drift.append("ConstantPacer.Pace disagrees with CPPoints.PaceWait/PaceStop at a recorded extreme point")
