"""C14 - target files decode to exactly the targets they describe, independently (spec/targets)."""
import json, os
from . import core, acmd
from .main import report_rejections


def signature(lines, off):
    ev = json.loads(lines[off - 1]) if off <= len(lines) else {}
    head = json.loads(lines[0])
    kinds = "".join({"REQ": "R", "HDR": "H", "BODY": "B", "COM": "C", "BLANK": "_", "WS": "w", "OBJ": "O"}.get(x.get("k"), "?") for x in head.get("lines", []))
    return "%s:%s:%s:spare=%s" % (ev.get("e"), head.get("format"), kinds[:60], head.get("spare"))


def run(ctx):
    cases = os.path.join(ctx.scratch, "c14cases.ndjson")
    ctx.model_check("targets", "MCTargets", "MCTargetsThorough.cfg" if ctx.thorough else "MCTargets.cfg", env={"CASES_OUT": cases}, timeout=3000)
    sens = []
    for cfg, needle, what in (("MCTargetsShared.cfg", "Invariant Independent is violated", "sharing the default slices contaminates earlier targets"),
                              ("MCTargetsOldScanner.cfg", "Assumption", "a request line after a comment is swallowed by the historic scanner")):
        r = ctx.model_check("targets", "MCTargets", cfg, expect_ok=False)
        if needle not in r["out"]:
            raise core.Infra("sensitivity configuration %s no longer fails" % cfg)
        sens.append(what + ": found by TLC")
    ctx.coverage["sensitivity"] = sens
    vh = ctx.build_harness()
    out = ctx.sub("c14")
    ctx.run_driver(vh, "TestDrv_C14", out, {"VERIF_CASES": cases})
    n, nev, rej = core.validate_cases(ctx, "targets", "TargetsTrace", "TargetsTrace.cfg", os.path.join(out, "c14.ndjson"))
    report_rejections(ctx, rej, signature, "targets trace rejected by TargetsContract")
    summ = json.load(open(os.path.join(out, "c14.summary.json")))
    ctx.coverage.update({
        "traces_validated_against_impl": n, "trace_events": nev, "tlc_exported_cases_replayed": summ["tlc_cases"],
        "random_documents": summ["random_docs"], "samples": summ["samples"] or ["(none)"], "exhaustive": True,
        "rule": "TLC enumerates every sequence of line kinds {REQ,HDR,BODY,COM,BLANK,WS} up to MaxLines (5 quick, 7 thorough), keeps the "
                "well-formed ones, proves the scanner model decodes each to the reference blocks and exports them; each is concretised "
                "(random methods/URLs/key case, default keys repeated, CRLF, trailing newline or not, default slices with/without spare "
                "capacity, lazy and eager path) and decoded by the real targeter, earlier targets re-inspected after every call; plus "
                "random documents of 1..50 targets in http and JSON format (JSON through the target encoder or encoding/json)",
    })
    ctx.assumptions += ["well-formedness is the reference grammar of TargetsContract (README examples): blocks with headers are ended by a blank line or EOF",
                        "body files live in a scratch directory; their content names them"]
    # the command-line anchor of this property: the attack command end to end against a loopback server (spec/cli/AttackCmd.tla)
    acmd.run_part(ctx, vh)
    return "model_checking"
