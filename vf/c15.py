"""C15 - targeters hand out each target exactly once under concurrent use (spec/targets/TargeterConc.tla)."""
import json, os
from . import core
from .main import report_rejections, report_races


def signature(lines, off):
    ev = json.loads(lines[off - 1]) if off <= len(lines) else {}
    head = json.loads(lines[0])
    return "%s:%s:n=%s:callers=%s:res=%s" % (ev.get("e"), head.get("kind"), head.get("n"), head.get("callers"), ev.get("res", ""))


def run(ctx):
    for d in ("http", "json", "static"):
        ctx.model_check("targets", "TargeterConc", "MCConc_%s.cfg" % d)
    r = ctx.model_check("targets", "TargeterConc", "MCConc_jsonShared.cfg", expect_ok=False)
    if "Invariant StreamOK is violated" not in r["out"]:
        raise core.Infra("sensitivity: a shared line buffer no longer violates StreamOK in the model")
    ctx.coverage["sensitivity"] = ["parsing a line from the reader's shared buffer after the mutex is released yields mixed targets in the model"]
    tot_n = tot_ev = draws = 0
    samples = []
    for race in (False, True):
        vh = ctx.build_harness(race=race)
        out = ctx.sub("c15race" if race else "c15")
        races = []
        rounds = (12 if ctx.thorough else 2) if not race else (4 if ctx.thorough else 1)
        ctx.run_driver(vh, "TestDrv_C15", out, {"VERIF_C15_ROUNDS": rounds}, timeout=3000, race_reports=races if race else None)
        report_races(ctx, races, "data race while goroutines draw concurrently from one targeter")
        if not os.path.exists(os.path.join(out, "c15.summary.json")):
            continue
        n, nev, rej = core.validate_cases(ctx, "targets", "ConcTrace", "ConcTrace.cfg", os.path.join(out, "c15.ndjson"), prefix="race" if race else "")
        report_rejections(ctx, rej, signature, "concurrent draws rejected by the C15 contract" + (" (race build)" if race else ""))
        summ = json.load(open(os.path.join(out, "c15.summary.json")))
        tot_n, tot_ev, draws = tot_n + n, tot_ev + nev, draws + summ["draws"]
        samples = samples or summ["samples"]
    ctx.coverage.update({"traces_validated_against_impl": tot_n, "trace_events": tot_ev, "draws": draws, "samples": samples or ["(none)"],
                         "rule": "1..64 goroutines draw from one http / JSON / static targeter over 1..3000 targets (documents beyond the 4 KiB read buffer) "
                                 "until exhaustion is reported twice to each; every draw is classified (input id, exhaustion, mixture, error) and the run is "
                                 "validated by TLC; built without and with the race detector"})
    ctx.assumptions += ["real scheduling on 16 cores: interleavings are sampled, not enumerated (the model enumerates them for 3 callers x 4 targets)"]
    return "model_checking"
