"""C10 - report metrics equal an exact reference computation (spec/report/Metrics.tla)."""
import json, os
from . import core, rloop
from .main import report_rejections


def signature(lines, off):
    ev = json.loads(lines[off - 1]) if off <= len(lines) else {}
    return "%s:%s" % (ev.get("e"), ev.get("via", ev.get("what", "")))


def run(ctx):
    cases = os.path.join(ctx.scratch, "c10grid.ndjson")
    ctx.model_check("report", "MCMetrics", "MCMetricsTime.cfg", env={"CASES_OUT": cases})
    ctx.model_check("report", "MCMetrics", "MCMetricsCodes.cfg")
    r = ctx.model_check("report", "MCMetrics", "MCMetricsOldMin.cfg", expect_ok=False)
    if "Invariant AccMatches is violated" not in r["out"]:
        raise core.Infra("sensitivity: the 'Min == 0 means unset' variant no longer violates AccMatches in the model")
    ctx.coverage["sensitivity"] = ["historic Min==0 sentinel violates AccMatches in the model: yes"]
    vh = ctx.build_harness()
    md = ctx.build_maindrv()
    out = ctx.sub("c10")
    ctx.run_driver(vh, "TestDrv_C10", out, {"VERIF_MAINDRV": md, "VERIF_CASES": cases})
    n, nev, rej = core.validate_cases(ctx, "report", "MetricsTrace", "MetricsTrace.cfg", os.path.join(out, "c10.ndjson"))
    report_rejections(ctx, rej, signature, "metrics trace rejected by the Metrics reference")
    # the command-level use of intermediate Close: report -every over a slow pipe, with interrupts (spec/cli/ReportLoop.tla)
    rloop.run_part(ctx, vh, md)
    summ = json.load(open(os.path.join(out, "c10.summary.json")))
    ctx.coverage.update({
        "traces_validated_against_impl": n, "trace_events": nev, "multisets": summ["multisets"], "additions": summ["adds"],
        "closes_compared": summ["closes"], "cli_reports": summ["cli_reports"], "tlc_exported_histories_replayed_with_every_close_placement": summ["grid_cases"], "samples": summ["samples"][:2] or ["(empty multisets only)"],
        "rule": "multisets of sizes 0..5000 (thorough: 1e5): equal/increasing/few-valued/random timestamps, zero/tiny/huge latencies, any uint16 "
                "status code, duplicate errors; each added in 4 orders (2 shuffles, in order, reversed) with random intermediate Close calls; "
                "every Close (fields, JSON reporter, report command) is compared by TLC with the reference accumulators in BigNat arithmetic",
    })
    ctx.assumptions += ["timestamps 1970..2200 and latency sums below 2^63 (the property's domain)",
                        "float fields compared within 1e-9 absolute + 1e-9 relative of the exact rational; mean latency within 1 ns",
                        "the incremental reference of the trace spec equals Reference(bag): proved by TLC on the bounded model only"]
    return "model_checking"
