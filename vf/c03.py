"""C03 - see vf/attackeng.py and spec/attack; plus the unbounded proof of the worker accounting (WorkerPool.tla)."""
import os, shutil, subprocess, time
from . import attackeng, core


def apalache(ctx, d, init, inv, length):
    t = time.time()
    try:
        r = subprocess.run(["apalache-mc", "check", "--init=" + init, "--inv=" + inv, "--length=%d" % length, "--out-dir=" + os.path.join(d, "apa-out"),
                            "WorkerPool.tla"], cwd=d, capture_output=True, text=True, timeout=600)
    except subprocess.TimeoutExpired:
        raise core.Infra("apalache timed out on WorkerPool %s => %s" % (init, inv))
    out = r.stdout + r.stderr
    ok = "The outcome is: NoError" in out
    bad = "violated" in out and "Found 1 error" in out
    if not ok and not bad:
        raise core.Infra("apalache failed on WorkerPool %s => %s:\n%s" % (init, inv, out[-2000:]))
    ctx.log("apalache WorkerPool %s => %s (length %d): %s in %.1fs" % (init, inv, length, "no error" if ok else "VIOLATED", time.time() - t))
    return ok


def run(ctx):
    # the worker accounting for every bound and every initial count: IndInv is inductive (Apalache, unbounded integers) ...
    d = os.path.join(ctx.scratch, "workerpool")
    os.makedirs(d, exist_ok=True)
    shutil.copy(os.path.join(core.SPEC, "attack", "WorkerPool.tla"), d)
    obligations = [("Init", "IndInv", 0), ("IndInit", "IndInv", 1), ("IndInit", "Goal", 0)]
    for init, inv, length in obligations:
        if not apalache(ctx, d, init, inv, length):
            raise core.Infra("WorkerPool: obligation %s => %s no longer holds in the model" % (init, inv))
    if apalache(ctx, d, "InitNoClamp", "IndInv", 0):
        raise core.Infra("sensitivity: without the initial clamp WorkerPool's invariant should fail")
    # ... and Attack.tla refines it (TLC, action property over the whole bounded state space: MCAttackRefine.cfg, run by attackeng)
    ctx.coverage["unbounded_proof"] = {"module": "spec/attack/WorkerPool.tla", "tool": "Apalache (SMT), maxw >= 1 and w0 >= 0 unconstrained integers",
                                       "obligations": ["Init => IndInv", "IndInv /\\ Next => IndInv'", "IndInv => Bounded /\\ FreeCapacityUsed"],
                                       "refinement": "Attack.tla => WorkerPool.tla checked by TLC (busy = workers - starting - idle - dead)",
                                       "sensitivity": "without the initial clamp Init => IndInv is refuted"}
    return attackeng.run(ctx, "C03", "C03")
