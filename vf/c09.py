"""C09 - see vf/streams.py and spec/stream."""
from . import streams


def run(ctx):
    return streams.run(ctx, "C09")
