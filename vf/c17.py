"""C17 - the plot shows every result exactly once, whatever the arrival order (spec/plot)."""
import json, os
from . import core
from .main import report_rejections


def signature(lines, off):
    ev = json.loads(lines[off - 1]) if off <= len(lines) else {}
    head = json.loads(lines[0])
    if ev.get("e") == "Down":
        return "Down:count=%s:threshold=%s" % (ev.get("count"), ev.get("threshold"))
    return "%s:%s:threshold=%s:order=%s:%s" % (ev.get("e"), ev.get("via", ""), head.get("threshold"), head.get("order"), str(ev.get("err", ""))[:80])


def run(ctx):
    ctx.model_check("plot", "MCPlot", "MCPlotThorough.cfg" if ctx.thorough else "MCPlot.cfg", timeout=3000)
    vh = ctx.build_harness()
    md = ctx.build_maindrv()
    out = ctx.sub("c17")
    ctx.run_driver(vh, "TestDrv_C17", out, {"VERIF_MAINDRV": md})
    # every Down event is its own case for sharding purposes: split the lttb block
    path = os.path.join(out, "c17.ndjson")
    cases = core.split_cases(path)
    big = [c for c in cases if len(c[1]) > 2000]
    for c in big:          # the lttb block: one Reset followed by thousands of independent Down events
        cases.remove(c)
        head, rest = c[1][0], c[1][1:]
        for i in range(0, len(rest), 500):
            cases.append((c[0] + i, [head] + rest[i:i + 500]))
    n, nev, rej = core.validate_cases(ctx, "plot", "PlotTrace", "PlotTrace.cfg", None, cases=cases, nshards=core.NCPU)
    report_rejections(ctx, rej, signature, "plot trace rejected by the C17 contract")
    from . import rloop   # the loop of the plot command (spec/cli/CmdLoop.tla)
    rloop.run_cmd_part(ctx, vh, md)
    summ = json.load(open(os.path.join(out, "c17.summary.json")))
    ctx.coverage.update({
        "traces_validated_against_impl": n, "trace_events": nev, "downsample_pairs": summ["downsample_pairs"], "plots": summ["plots"],
        "html_pages": summ["html_pages"], "samples": summ["samples"] or ["(none)"], "exhaustive": True,
        "rule": "Downsample: every (count, threshold) with count <= 64 and threshold <= count+2, random pairs up to count 5000, real function with an "
                "instrumented iterator; Plot: 1-3 attacks x 1..5000 results, OK/ERROR mixes, gaps from 0 to minutes, three arrival orders "
                "(random, reversed, locally disordered), thresholds 0 / above / below the series length; rows from Plot.data() and from the HTML "
                "of the plot command",
    })
    ctx.assumptions += ["timestamps do not decrease with the sequence number within an attack (C05 is the precondition of the plot)",
                        "downsampled plots use strictly increasing instants (no ties), so 'subsequence' is unambiguous"]
    return "model_checking"
