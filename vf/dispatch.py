"""DISPATCH - the program's entry point (spec/cli/Dispatch.tla): global flags, choice of the command, hand-over to its flag set.
Not one of the listed properties; it runs the real binary built from the tree under test."""
import json, os, subprocess, time
from . import core
from .main import report_rejections


def signature(lines, off):
    ev = json.loads(lines[off - 1]) if off <= len(lines) else {}
    return "Dispatch:%s" % " ".join(ev.get("args", []))


def run_part(ctx, vh=None):
    cases = os.path.join(ctx.scratch, "dispatchcases.ndjson")
    ctx.model_check("cli", "MCDispatch", "MCDispatch.cfg", env={"CASES_OUT": cases}, workers=1)
    vh = vh or ctx.build_harness()
    binary = os.path.join(ctx.scratch, "vegeta")
    t = time.time()
    r = subprocess.run([core.GO, "build", "-o", binary, "."], cwd=core.REPO, env=ctx.env(), capture_output=True, text=True, timeout=900)
    if r.returncode != 0:
        raise core.Infra("package main of %s does not build:\n%s" % (core.REPO, r.stderr[-3000:]))
    ctx.log("built vegeta in %.1fs" % (time.time() - t))
    out = ctx.sub("dispatch")
    ctx.run_driver(vh, "TestDrv_Dispatch", out, {"VERIF_VEGETA_BIN": binary, "VERIF_CASES": cases})
    lines = open(os.path.join(out, "dispatch.ndjson")).readlines()
    head, rest = lines[0], lines[1:]
    chunks = [(1 + i, [head] + rest[i:i + 300]) for i in range(0, len(rest), 300)]
    n, nev, rej = core.validate_cases(ctx, "cli", "DispatchTrace", "DispatchTrace.cfg", None, cases=chunks, prefix="dispatch")
    report_rejections(ctx, rej, signature, "run of the real binary rejected by Dispatch (global flags, command choice, exit status)")
    summ = json.load(open(os.path.join(out, "dispatch.summary.json")))
    ctx.coverage.update({"binary_runs": summ["runs"], "dispatch_samples": summ["samples"] or ["none"]})
    return len(rest), nev


def run(ctx):
    n, nev = run_part(ctx)
    ctx.coverage.update({"traces_validated_against_impl": n, "trace_events": nev})
    return "model_checking"
