"""PIPE - composition of the families (spec/pipeline/Pipeline.tla): not one of the listed properties, so it is not registered in
MANIFEST.json; `bin/vcheck PIPE quick` checks the cross-family facts on the model and their conformance with the real commands."""
import json, os
from . import core
from .main import report_rejections


def run(ctx):
    ctx.model_check("pipeline", "Pipeline", "Pipeline.cfg")
    for cfg, needle in (("PipelineOrderViolated.cfg", "Invariant NoMonotonicError is violated"), ("PipelineGap.cfg", "Invariant PlotShowsWholeFile is violated")):
        r = ctx.model_check("pipeline", "Pipeline", cfg, expect_ok=False)
        if needle not in r["out"]:
            raise core.Infra("pipeline observation no longer reproduced by %s" % cfg)
    ctx.coverage["observations"] = ["without C05 (an inverted timestamp) some arrival order makes the plot fail",
                                    "the plot of a killed attack's file omits every result behind the first missing sequence number, although the report counts it"]
    vh = ctx.build_harness()
    md = ctx.build_maindrv()
    out = ctx.sub("pipe")
    ctx.run_driver(vh, "TestDrv_Pipeline", out, {"VERIF_MAINDRV": md})
    lines = open(os.path.join(out, "pipe.ndjson")).readlines()
    n, nev, rej = core.validate_cases(ctx, "pipeline", "PipeTrace", "PipeTrace.cfg", None, cases=[(1, lines)])
    report_rejections(ctx, rej, lambda l, o: "Pipe:" + l[o - 1][:200], "pipeline trace rejected (composition of C09/C10/C17 facts)")
    ctx.coverage.update({"traces_validated_against_impl": len(lines) - 1, "trace_events": nev, "samples": [json.loads(lines[1])] if len(lines) > 1 else ["none"]})
    return "model_checking"
