"""C12 - histogram buckets partition the results (spec/report/Histogram.tla)."""
import json, os
from . import core
from .main import report_rejections


def signature(lines, off):
    ev = json.loads(lines[off - 1]) if off <= len(lines) else {}
    return "%s:%s" % (ev.get("e"), ev.get("what", ev.get("kind", "")))


def run(ctx):
    cases = os.path.join(ctx.scratch, "c12cases.ndjson")
    parse = os.path.join(ctx.scratch, "c12parse.ndjson")
    cfg = "MCHistogramThorough.cfg" if ctx.thorough else "MCHistogram.cfg"
    ctx.model_check("report", "MCHistogram", cfg, env={"CASES_OUT": cases, "PARSE_OUT": parse})
    vh = ctx.build_harness()
    md = ctx.build_maindrv()
    out = ctx.sub("c12")
    ctx.run_driver(vh, "TestDrv_C12", out, {"VERIF_CASES": cases, "VERIF_PARSE_CASES": parse, "VERIF_MAINDRV": md})
    ncases, nev, rej = core.validate_cases(ctx, "report", "HistTrace", "HistTrace.cfg", os.path.join(out, "c12.ndjson"))
    report_rejections(ctx, rej, signature, "histogram trace rejected by Histogram contract")
    summ = json.load(open(os.path.join(out, "c12.summary.json")))
    ctx.coverage.update({
        "traces_validated_against_impl": ncases, "trace_events": nev,
        "tlc_exported_cases_replayed": summ["tlc_cases"], "parser_cases_replayed": summ["parse_cases"],
        "cli_reports": summ["cli_reports"], "samples": summ["samples"],
        "exhaustive": True,
        "rule": "TLC enumerates every increasing bound list (<=MaxLen bounds over 0..MaxBound) with every in-domain latency; "
                "each exported case is replayed on the real Histogram at 1ns and 1ms scale; plus random bound lists (1..20 bounds, "
                "latencies on/just below/just above bounds), parser texts with random spacing/units and the report command",
    })
    ctx.assumptions += ["latencies below the first bound are outside the property's domain and are not generated",
                        "text/JSON renderings are parsed by the harness (time.ParseDuration, encoding/json tokens)"]
    return "model_checking"
