"""Shared machinery: scratch space, building the harness against /repo's working tree,
running TLC (exhaustive models and trace validation), evidence, verdicts."""
import atexit, json, os, re, shutil, subprocess, sys, tempfile, time, concurrent.futures

VERIF = os.path.dirname(os.path.dirname(os.path.abspath(__file__)))
REPO = os.environ.get("VERIF_REPO", "/repo")
SPEC = os.path.join(VERIF, "spec")
GOENV = {"GOFLAGS": "-mod=mod", "GOPROXY": "off", "GOSUMDB": "off", "GOTOOLCHAIN": "local",
         "CGO_ENABLED": "1"}
GO = "go1.26.8"
NCPU = os.cpu_count() or 4


class Infra(Exception):
    """Tool failure, timeout, dead driver: exit 2, never a violation."""


class CodeCrash(Exception):
    """A driver process died of a Go panic raised in a goroutine that was running code of the repository under test
    (a /repo frame before any harness frame): an observation about the code, reported as a violation with the stack as replay."""
    def __init__(self, stack):
        Exception.__init__(self, stack[:300])
        self.stack = stack


class Ctx:
    def __init__(self, pid, tier):
        self.pid, self.tier = pid, tier
        self.seed = int(os.environ.get("VERIF_SEED", "1") or 1)
        self.t0 = time.time()
        self.scratch = tempfile.mkdtemp(prefix="vcheck-%s-" % pid, dir=os.environ.get("VERIF_TMP", "/tmp"))
        self.bind_done = set()
        if not os.environ.get("VERIF_KEEP_SCRATCH"):
            atexit.register(shutil.rmtree, self.scratch, True)
        self.violations = []      # (signature, replay path, text)
        self.known = []           # known-finding lines
        self.drift = []           # model drift notes
        self.coverage = {}
        self.assumptions = []
        self.notes = []
        self._nmeta = 0

    @property
    def thorough(self):
        return self.tier == "thorough"

    def sub(self, name):
        d = os.path.join(self.scratch, name)
        os.makedirs(d, exist_ok=True)
        return d

    def log(self, *a):
        print("[%s %6.1fs]" % (self.pid, time.time() - self.t0), *a, file=sys.stderr, flush=True)

    # ------------------------------------------------------------------ build
    def env(self, extra=None):
        e = dict(os.environ)
        e.update(GOENV)
        e["VERIF_SEED"] = str(self.seed)
        e["VERIF_TIER"] = self.tier
        if extra:
            e.update({k: str(v) for k, v in extra.items()})
        return e

    def build_harness(self, race=False):
        """go test -c of /verif/harness (a scratch copy, so go.sum/go.mod edits by the
        toolchain never touch /verif) against /repo's current working tree."""
        name = "vh-race.test" if race else "vh.test"
        out = os.path.join(self.scratch, name)
        if os.path.exists(out):
            return out
        src = os.path.join(self.scratch, "harness-src")
        if not os.path.exists(src):
            shutil.copytree(os.path.join(VERIF, "harness"), src)
            shutil.copy(os.path.join(REPO, "go.sum"), os.path.join(src, "go.sum"))
            if REPO != "/repo":
                p = os.path.join(src, "go.mod")
                text = open(p).read().replace("=> /repo", "=> " + REPO)
                open(p, "w").write(text)
        cmd = [GO, "test", "-c", "-tags", "verif", "-vet=off", "-o", out]
        if race:
            cmd.insert(3, "-race")
        cmd.append(".")
        t = time.time()
        r = subprocess.run(cmd, cwd=src, env=self.env(), capture_output=True, text=True, timeout=900)
        if r.returncode != 0:
            raise Infra("harness does not build against %s:\n%s" % (REPO, r.stderr[-4000:]))
        self.log("built %s in %.1fs" % (name, time.time() - t))
        return out

    def build_maindrv(self):
        out = os.path.join(self.scratch, "maindrv.test")
        if os.path.exists(out):
            return out
        t = time.time()
        r = subprocess.run([GO, "test", "-c", "-tags", "verif", "-vet=off", "-o", out, "."], cwd=REPO,
                           env=self.env(), capture_output=True, text=True, timeout=900)
        if r.returncode != 0:
            raise Infra("package main of %s does not build with -tags verif:\n%s" % (REPO, r.stderr[-4000:]))
        self.log("built maindrv.test in %.1fs" % (time.time() - t))
        return out

    def run_driver(self, binary, test, outdir, extra=None, timeout=1800, race_reports=None, crash_reports=None):
        """Runs one driver test function of the harness binary; a failing or dead driver
        is an infrastructure error (the driver itself never judges).  A driver that died for a reason of its own (no panic
        in the code under test, no time-out) says nothing about the property: its output is kept for diagnosis and it is
        run once more; the second run stands."""
        try:
            return self._run_driver(binary, test, outdir, extra, timeout, race_reports, crash_reports)
        except Infra as e:
            if "timed out" in str(e).split("\n")[0]:
                raise
            os.makedirs(os.path.join(VERIF, "replays"), exist_ok=True)
            keep = os.path.join(VERIF, "replays", "driver-failure-%s-%s-%d.txt" % (self.pid, test, int(time.time())))
            with open(keep, "w") as f:
                f.write(str(e))
            self.log("driver %s failed once (output kept in %s); running it once more" % (test, keep))
            self.coverage.setdefault("driver_reruns", []).append(test)
            shutil.rmtree(outdir, True)
            os.makedirs(outdir, exist_ok=True)
            return self._run_driver(binary, test, outdir, extra, timeout, race_reports, crash_reports)

    def _run_driver(self, binary, test, outdir, extra, timeout, race_reports, crash_reports):
        env = self.env({"VERIF_OUT": outdir, "GORACE": "halt_on_error=0"})
        if extra:
            env.update({k: str(v) for k, v in extra.items()})
        t = time.time()
        try:
            r = subprocess.run([binary, "-test.run", "^%s$" % test, "-test.timeout", "%ds" % timeout, "-test.v"],
                               cwd=outdir, env=env, capture_output=True, text=True, timeout=timeout + 30)
        except subprocess.TimeoutExpired:
            raise Infra("driver %s timed out" % test)
        races = (r.stdout + r.stderr).count("WARNING: DATA RACE")
        if races and race_reports is not None:
            # the race detector fired inside the code under test: not a dead driver but an observation
            txt = r.stdout + r.stderr
            i = txt.find("WARNING: DATA RACE")
            race_reports.append(txt[i:i + 3500])
            self.log("driver %s: %d data race report(s)" % (test, races))
            return r.stdout
        txt = r.stdout + r.stderr
        if r.returncode != 0 and "\npanic: " in "\n" + txt:
            # the driver process died of a Go panic: if the panicking goroutine was running code of the repository under
            # test (a frame under REPO before any frame of the harness), that is an observation about the code, not a dead driver
            i = txt.find("panic: ")
            stack = txt[i:i + 4000]
            first_goroutine = stack.split("\n\n")[0] + "\n" + (stack.split("\n\n")[1] if "\n\n" in stack else "")
            frames = [ln.strip() for ln in first_goroutine.splitlines() if ln.startswith("\t")]
            own = next((k for k, f in enumerate(frames) if f.startswith(REPO + "/") and "verif_driver_test.go" not in f), None)
            harness = next((k for k, f in enumerate(frames) if "harness-src" in f), None)
            if own is not None and (harness is None or own < harness):
                self.log("driver %s: the code under test panicked" % test)
                if crash_reports is None:
                    raise CodeCrash(stack)          # main() turns it into a violation
                crash_reports.append(stack)
                return r.stdout
        if r.returncode != 0 or ("--- PASS: " + test) not in r.stdout:
            raise Infra("driver %s failed (exit %d):\n%s\n%s" % (test, r.returncode, r.stdout[-3000:], r.stderr[-3000:]))
        self.log("driver %s ran in %.1fs" % (test, time.time() - t))
        return r.stdout

    # ------------------------------------------------------------------ TLC
    def spec_dir(self, family):
        """A scratch copy of spec/<family> plus spec/lib (TLC litters its directory)."""
        d = os.path.join(self.scratch, "spec-" + family)
        if not os.path.exists(d):
            shutil.copytree(os.path.join(SPEC, family), d)
            for f in os.listdir(os.path.join(SPEC, "lib")):
                shutil.copy(os.path.join(SPEC, "lib", f), d)
        return d

    def tlc(self, family, module, cfg, env=None, workers=None, timeout=900, extra_args=(), deque=False):
        d = self.spec_dir(family)
        self._nmeta += 1
        meta = os.path.join(self.scratch, "meta%d" % self._nmeta)
        e = dict(os.environ)
        # many TLC processes run side by side: keep each JVM's helper threads few
        e["JAVA_TOOL_OPTIONS"] = (e.get("JAVA_TOOL_OPTIONS", "") + " -XX:ParallelGCThreads=2 -XX:CICompilerCount=2 -Xss256m").strip()
        # the tools leave small files in the JVM's temporary directory (tlc-*, SANY*): keep them inside the scratch directory
        jtmp = os.path.join(self.scratch, "jtmp")
        os.makedirs(jtmp, exist_ok=True)
        e["JAVA_TOOL_OPTIONS"] += " -Djava.io.tmpdir=" + jtmp
        if (workers or 0) == 1:
            # trace validation: up to 16 such processes run side by side; without a cap each JVM may grow to 25% of RAM
            e["JAVA_TOOL_OPTIONS"] += " -Xmx3g"
        if deque:
            e["JAVA_TOOL_OPTIONS"] = (e.get("JAVA_TOOL_OPTIONS", "") + " -Dtlc2.tool.queue.IStateQueue=StateDeque").strip()
        if env:
            e.update({k: str(v) for k, v in env.items()})
        cmd = ["tlc", "-metadir", meta, "-workers", str(workers or min(NCPU, 8)), "-config", cfg] + list(extra_args) + [module + ".tla"]
        t = time.time()
        try:
            r = subprocess.run(cmd, cwd=d, env=e, capture_output=True, text=True, timeout=timeout)
        except subprocess.TimeoutExpired:
            raise Infra("TLC timed out on %s/%s (%s)" % (family, module, cfg))
        finally:
            shutil.rmtree(meta, True)
        out = r.stdout + r.stderr
        res = {"exit": r.returncode, "out": out, "wall": time.time() - t, "generated": 0, "distinct": 0}
        m = re.search(r"(\d+) states generated, (\d+) distinct states found", out)
        if m:
            res["generated"], res["distinct"] = int(m.group(1)), int(m.group(2))
        return res

    @staticmethod
    def parse_coverage(out):
        """Per-action counts of a `-coverage 1` run: {action: [distinct states, states generated]}."""
        cov = {}
        for m in re.finditer(r"^<(\w+) line \d+, col \d+ to line \d+, col \d+ of module (\w+)>: (\d+):(\d+)\s*$", out, re.M):
            name = m.group(1)
            d, g = int(m.group(3)), int(m.group(4))
            if name in cov:
                d, g = d + cov[name][0], g + cov[name][1]
            cov[name] = [d, g]
        return cov

    def model_check(self, family, module, cfg, env=None, timeout=1800, workers=None, expect_ok=True, coverage=None):
        """Exhaustive TLC run of a design-level configuration.  Its result does not depend
        on /repo; a failure here is a broken specification, i.e. an infrastructure error."""
        if coverage is None:
            coverage = expect_ok and os.environ.get("VERIF_NO_COVERAGE") != "1"
        r = self.tlc(family, module, cfg, env=env, timeout=timeout, workers=workers, extra_args=("-coverage", "1") if coverage else ())
        ok = "Model checking completed. No error has been found." in r["out"]
        self.log("TLC %s/%s %s: %d generated / %d distinct, %.1fs, %s" %
                 (family, module, cfg, r["generated"], r["distinct"], r["wall"], "ok" if ok else "ERROR"))
        if expect_ok and not ok:
            raise Infra("TLC found an error in the design-level model %s/%s (%s):\n%s" % (family, module, cfg, r["out"][-3000:]))
        m = self.coverage.setdefault("models", [])
        entry = {"module": module, "cfg": cfg, "states_generated": r["generated"], "distinct_states": r["distinct"],
                 "wall_s": round(r["wall"], 1), "ok": ok}
        if coverage and ok:
            cov = self.parse_coverage(r["out"])
            acts = {k: v for k, v in cov.items() if k not in ("Init",)}
            entry["action_coverage"] = acts
            entry["actions_never_taken"] = sorted(k for k, v in acts.items() if v[1] == 0)
        m.append(entry)
        self.coverage["states"] = self.coverage.get("states", 0) + r["distinct"]
        self.coverage["transitions"] = self.coverage.get("transitions", 0) + r["generated"]
        return r

    def validate_trace(self, family, module, cfg, trace, deque=False, timeout=1800):
        """TLC trace validation of one ndjson file.  Returns None if accepted, else
        (position, event json text)."""
        r = self.tlc(family, module, cfg, env={"TRACE": trace}, workers=1, timeout=timeout, deque=deque)
        out = r["out"]
        if "TRACE-ACCEPTED" in out and "No error has been found" in out:
            return None, r
        m = re.search(r'<<"TRACE-REJECTED", (\d+)>>', out)
        if not m:
            raise Infra("trace validation of %s with %s did not finish:\n%s" % (trace, module, out[-3000:]))
        pos = int(m.group(1))
        return pos, r


def split_cases(path):
    """Splits a concatenated trace into cases at events with "e":"Reset".  Returns a list of
    (first line index (1-based), [lines])."""
    cases, cur, start = [], [], 1
    with open(path) as f:
        for i, line in enumerate(f, 1):
            if '"e":"Reset"' in line and cur:
                cases.append((start, cur))
                cur, start = [], i
            cur.append(line)
    if cur:
        cases.append((start, cur))
    return cases


def shard_cases(cases, n):
    n = max(1, min(n, len(cases)))
    shards = [[] for _ in range(n)]
    sizes = [0] * n
    for c in sorted(cases, key=lambda c: -len(c[1])):
        i = sizes.index(min(sizes))
        shards[i].append(c)
        sizes[i] += len(c[1])
    return [s for s in shards if s]


def validate_cases(ctx, family, module, cfg, trace, prefix="", max_reject=8, deque=False, nshards=None,
                   signature=None, cases=None):
    """Validates every case of a concatenated trace, in parallel shards; every rejected case is
    written to replays/ and reported.  Returns (number of cases, number of events, rejected list).
    signature(case_lines, offending_line) -> stable key of a rejection, matched with known findings."""
    if cases is None:
        cases = split_cases(trace)
    nev = sum(len(c[1]) for c in cases)
    ctx.spec_dir(family)        # created once, before the parallel shards use it
    shards = shard_cases(cases, nshards or max(1, min(NCPU, nev // 15000)))
    rejected = []

    def work(idx_shard):
        idx, shard = idx_shard
        rej = []
        shard = list(shard)
        rounds = 0
        while shard and rounds <= max_reject:
            rounds += 1
            p = os.path.join(ctx.scratch, "%sshard%d_%d.ndjson" % (prefix, idx, rounds))
            with open(p, "w") as f:
                for _, lines in shard:
                    f.writelines(lines)
            pos, r = ctx.validate_trace(family, module, cfg, p, deque=deque)
            if pos is None:
                break
            # locate the case containing line `pos`
            acc = 0
            for k, (start, lines) in enumerate(shard):
                if pos <= acc + len(lines):
                    off = pos - acc
                    rej.append((start, lines, off))
                    shard.pop(k)
                    break
                acc += len(lines)
            else:
                raise Infra("rejection position %d beyond trace" % pos)
        return rej

    with concurrent.futures.ThreadPoolExecutor(max_workers=NCPU) as ex:
        for rej in ex.map(work, list(enumerate(shards))):
            rejected.extend(rej)
    if not rejected and cases and os.environ.get("VERIF_BINDDEMO", "1") != "0" and (family, module, cfg) not in ctx.bind_done:
        ctx.bind_done.add((family, module, cfg))
        bind_demo(ctx, family, module, cfg, cases, prefix, deque)
    return len(cases), nev, rejected


def bind_demo(ctx, family, module, cfg, cases, prefix, deque):
    """The binding demonstration: an accepted real trace stops being accepted once one logged number is changed or one event is
    dropped.  Four corruptions of one accepted case are tried; how many TLC rejects is recorded in the evidence (a field the
    contract does not constrain - a timestamp used for ordering only, say - may survive; at least one must not)."""
    import random
    rnd = random.Random(ctx.seed)
    pool = [c for c in cases if 4 <= len(c[1]) <= 400] or [c for c in cases if len(c[1]) >= 2]
    if not pool:
        return
    start, lines = pool[rnd.randrange(len(pool))]
    tried, caught, kinds = 0, 0, []
    for attempt in range(4):
        mutated = list(lines)
        k = 1 + rnd.randrange(len(lines) - 1)                     # never the Reset line
        if attempt % 2 == 0:
            del mutated[k]
            what = "dropped event %d" % (k + 1)
        else:
            try:
                ev = json.loads(mutated[k])
            except Exception:
                continue
            paths = []                                             # every number anywhere in the event (nested records and lists too)

            def walk(node, path):
                if isinstance(node, bool):
                    return
                if isinstance(node, int):
                    paths.append(path)
                elif isinstance(node, dict):
                    for kk, vv in node.items():
                        walk(vv, path + [kk])
                elif isinstance(node, list):
                    for ii, vv in enumerate(node[:50]):
                        walk(vv, path + [ii])
            walk(ev, [])
            if not paths:
                continue
            path = rnd.choice(paths)
            node = ev
            for step in path[:-1]:
                node = node[step]
            node[path[-1]] += 1
            key = ".".join(str(x) for x in path)
            mutated[k] = json.dumps(ev, separators=(",", ":")) + "\n"
            what = "field %s of event %d changed by one" % (key, k + 1)
        pth = os.path.join(ctx.scratch, "%sbinddemo%d.ndjson" % (prefix, attempt))
        with open(pth, "w") as f:
            f.writelines(mutated)
        try:
            pos, _ = ctx.validate_trace(family, module, cfg, pth, deque=deque)
        except Infra:
            pos = -1                                               # TLC could not even evaluate the corrupted trace: not accepted either
        tried += 1
        if pos is not None:
            caught += 1
        kinds.append("%s: %s" % (what, "rejected" if pos is not None else "still accepted"))
    ctx.coverage.setdefault("binding_demonstration", []).append(
        {"trace_spec": "%s/%s %s" % (family, module, cfg), "corruptions_tried": tried, "rejected": caught, "detail": kinds})
    ctx.log("binding demonstration %s/%s: %d of %d corruptions of an accepted trace rejected" % (family, module, caught, tried))
