"""C11 - latency percentiles ordered and within a bounded rank error (spec/report/Quantiles.tla).
Trace validation only: the estimator is a third-party numeric algorithm, no design model is claimed."""
import json, os
from . import core
from .main import report_rejections


def signature(lines, off):
    ev = json.loads(lines[off - 1]) if off <= len(lines) else {}
    head = json.loads(lines[0])
    return "%s:q=%s:shape=%s:order=%s:n=%s" % (ev.get("e"), ev.get("q", ""), head.get("shape"), head.get("order"), head.get("n"))


def run(ctx):
    vh = ctx.build_harness()
    out = ctx.sub("c11")
    ctx.run_driver(vh, "TestDrv_C11", out)
    n, nev, rej = core.validate_cases(ctx, "report", "Quantiles", "Quantiles.cfg", os.path.join(out, "c11.ndjson"))
    report_rejections(ctx, rej, signature, "percentile report rejected by the Quantiles acceptance predicate")
    summ = json.load(open(os.path.join(out, "c11.summary.json")))
    ctx.coverage.update({
        "evaluations": n, "distinct_nontrivial": n, "traces_validated_against_impl": n, "trace_events": nev,
        "samples": summ["samples"] or ["(none)"],
        "rule": "one case = one latency multiset (sizes 1..1e4, thorough 1e5; shapes uniform, log-normal, constant, few-valued, bimodal with "
                "huge gap, ramp) in one arrival order (as drawn, sorted, reverse-sorted) fed to the real Metrics; all cases are distinct "
                "(size x shape x order x round with fresh random values) and non-trivial (each checks 4 rank clauses, the ordering chain and "
                "the hdrplot column)",
    })
    ctx.assumptions += ["rank counts (lt, le) come from the driver's own sorted copy of the samples",
                        "hdrplot values are parsed back from the printed milliseconds (6 decimals)"]
    return "exploration"
