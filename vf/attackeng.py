"""Shared engine of C02, C03, C04: Attack.tla (exhaustive design model with the AttackContract monitor
beside it), TLC-exported timed scripts, the synctest bubble driver, and trace validation of the recorded
runs against AttackContract restricted to the clauses of the property being checked."""
import glob, json, os
from . import core, acmd
from .main import report_rejections, report_crashes


def signature(lines, off):
    try:
        ev = json.loads(lines[off - 1])
        head = json.loads(lines[0])
    except Exception:
        return "unparsable"
    return "%s@script:%s" % (ev.get("e"), str(head.get("script"))[:300])


def collect_cases(paths):
    cases = []
    for p in sorted(paths):
        cases.extend(core.split_cases(p))
    return cases


def run(ctx, prop, bias):
    # 1. design level: the implementation-shaped model refines the contract (all clauses), plus the
    #    liveness clause and the sensitivity configurations that must FAIL (non-vacuity of the model)
    if prop == "C03" and not ctx.thorough:
        # the same state space with, in addition, the refinement of WorkerPool.tla (whose invariant Apalache proves for every bound)
        ctx.model_check("attack", "MCAttackRefine", "MCAttackRefine.cfg", timeout=3000)
    else:
        ctx.model_check("attack", "Attack", "MCAttackThorough.cfg" if ctx.thorough else "MCAttack.cfg", timeout=3000, coverage=ctx.thorough)
        if prop == "C03":
            ctx.model_check("attack", "MCAttackRefine", "MCAttackRefine.cfg", timeout=3000)
    if prop in ("C02", "C04"):
        ctx.model_check("attack", "Attack", "MCAttackLive.cfg", coverage=ctx.thorough)
    sens = []
    if prop == "C02":
        r = ctx.model_check("attack", "Attack", "MCAttackOldStop.cfg", expect_ok=False)
        bad = "Invariant ContractHolds is violated" in r["out"] or "Invariant AtMostOneTrue is violated" in r["out"]
        if not bad:
            raise core.Infra("sensitivity: the check-then-close Stop variant no longer violates the contract in the model")
        sens.append("two-step Stop (historic code) violates OneInitiator in the model: yes")
    ctx.coverage["sensitivity"] = sens
    # 2. scripts exported by TLC
    scripts = os.path.join(ctx.scratch, "scripts.ndjson")
    r = ctx.tlc("attack", "MCAttackScripts", "MCAttackScripts.cfg", env={"SCRIPTS_OUT": scripts}, workers=1)
    if "No error has been found" not in r["out"] or not os.path.exists(scripts):
        raise core.Infra("script export failed:\n" + r["out"][-2000:])
    # 3. the real Attacker in bubbles
    vh = ctx.build_harness()
    out = ctx.sub("attack")
    env = {"VERIF_SCRIPTS": scripts, "VERIF_BIAS": bias,
           "VERIF_SLICE": 1 if ctx.thorough else 16,
           "VERIF_RANDOM": 60000 if ctx.thorough else 3000,
           "VERIF_BIG": 300 if ctx.thorough else 24}
    crashes = []
    ctx.run_driver(vh, "TestDrv_Attack", out, env, timeout=3000, crash_reports=crashes)
    report_crashes(ctx, crashes, "a goroutine of the attack panicked while a timed script ran")
    if crashes:
        return "model_checking"
    cases = collect_cases(glob.glob(os.path.join(out, "attack_*.ndjson")))
    summ = json.load(open(os.path.join(out, "attack.summary.json")))
    stop_cases = []
    if prop == "C02":
        out2 = ctx.sub("stop")
        ctx.run_driver(vh, "TestDrv_StopStress", out2, {"VERIF_STOP_ATTACKERS": 400000 if ctx.thorough else 30000}, timeout=3000)
        stop_cases = collect_cases(glob.glob(os.path.join(out2, "stop_*.ndjson")))
    # 3b. C02's CLI anchor: the result pump of the attack command with its two-stage signal handling (Pump.tla)
    if prop == "C02":
        ctx.model_check("attack", "Pump", "MCPump.cfg")
        out3 = ctx.sub("pump")
        ctx.run_driver(vh, "TestDrv_Pump", out3, {"VERIF_MAINDRV": ctx.build_maindrv()}, timeout=3000)
        plines = open(os.path.join(out3, "pump.ndjson")).readlines()
        pn, pev, prej = core.validate_cases(ctx, "attack", "PumpTrace", "PumpTrace.cfg", None, cases=[(1, plines)], prefix="pump")
        report_rejections(ctx, prej, lambda l, o: "Pump:" + l[o - 1].strip()[:200], "run of the real processAttack loses or duplicates results (Pump.tla)")
        if not prej:     # the exact outcome of every scripted run (when it returns, what it wrote, who stopped the attack): model drift only
            _, _, srej = core.validate_cases(ctx, "attack", "PumpTrace", "PumpTraceStrict.cfg", None, cases=[(1, plines)], prefix="pumpstrict", max_reject=3)
            for start, lines, off in srej:
                ctx.drift.append("scripted run of processAttack differs from Pump!Expected: " + lines[off - 1].strip()[:200])
        ctx.coverage["pump_scripts_validated"] = len(plines) - 1
    if prop in ("C03", "C04"):   # the -workers / -max-workers flags (C03), -rate and -duration as the command hands them to Attack (C04)
        acmd.run_part(ctx, vh)
    # 3c. C04 under the real scheduler and the real runtime timers, with the timer-channel semantics of both go.mod generations
    rt_cases = []
    if prop == "C04":
        for dbg in ("", "asynctimerchan=1"):
            out4 = ctx.sub("attackrt" + dbg.replace("=", ""))
            ctx.run_driver(vh, "TestDrv_AttackRT", out4, {"GODEBUG": dbg} if dbg else None, timeout=3000)
            rt_cases += collect_cases([os.path.join(out4, "attackrt.ndjson")])
        ctx.coverage["real_time_runs"] = len(rt_cases)
    # 4. trace validation against the contract clauses of this property
    cfg = "AttackTrace%s.cfg" % prop
    n, nev, rej = core.validate_cases(ctx, "attack", "AttackTrace", cfg, None, cases=cases + stop_cases + rt_cases, nshards=core.NCPU)
    report_rejections(ctx, rej, signature, "attack trace rejected by AttackContract clauses of " + prop)
    # 5. implementation layer (model drift, never a verdict): the runs of the TLC-exported scripts must also be behaviours of
    #    Attack.tla itself, with its internal actions as silent steps (AttackImplTrace.tla)
    drift_cases = 0
    if not ctx.violations and (prop == "C03" or (prop == "C02" and ctx.thorough)):
        small = [c for c in cases if '"script":"{' in c[1][0] and int(json.loads(c[1][0]).get("id", 1 << 30)) < summ["exported"]]
        if not ctx.thorough:
            small = small[::4]
        drift_cases, _, drej = core.validate_cases(ctx, "attack", "AttackImplTrace", "AttackImplTrace.cfg", None, cases=small, nshards=core.NCPU,
                                                   prefix="impl", deque=True, max_reject=2)
        for start, lines, off in drej[:5]:
            ctx.drift.append("run not a behaviour of Attack.tla at event %d %s of %s" % (off, lines[off - 1].strip()[:120], signature(lines, off)[:200]))
    ctx.coverage["runs_validated_against_implementation_shaped_spec"] = drift_cases
    ctx.coverage.update({
        "traces_validated_against_impl": n, "trace_events": nev,
        "scripts_exported_by_tlc_run": summ["exported"], "random_scripts": summ["random"], "long_random_runs": summ["big"],
        "stop_stress_attackers": len(stop_cases),
        "samples": summ["samples"][:3],
        "rule": "every timed script is one run of the real Attacker.Attack in a synctest bubble (virtual time); scripts = a slice (quick: "
                "1/16, thorough: all) of the 96768 scripts TLC exports from the model's environment choices + seeded random scripts "
                "+ long random runs (up to 64 workers, 2000 hits); each recorded run is validated by TLC against AttackContract",
    })
    ctx.assumptions += [
        "testing/synctest virtual time: events at the same instant race for real; the contract allows any order",
        "trace order is the order of log lines written under one mutex; the consumer logs Recv after the hand-off (one-event slack in Cap)",
        "the scripted transport always succeeds; pacer, targeter, transport, consumer and Stop callers are the harness's",
    ]
    return "model_checking"
