"""RLOOP - the loop of the report command (spec/cli/ReportLoop.tla): periodic reports over a slow input, interrupts.
It is the command-level use of C10's "intermediate Close" clause; C10 runs it too (run_part)."""
import json, os
from . import core
from .main import report_rejections


def signature(lines, off):
    ev = json.loads(lines[off - 1]) if off <= len(lines) else {}
    hdr = json.loads(lines[0]) if lines else {}
    return "ReportLoop:%s:codec=%s:every=%sms:signalled=%s" % (ev.get("e"), hdr.get("codec"), hdr.get("every_ms"), hdr.get("signalled"))


def run_part(ctx, vh=None, md=None):
    ctx.model_check("cli", "MCReportLoop", "MCReportLoop.cfg")
    ctx.model_check("cli", "MCReportLoop", "MCReportLoopLive.cfg")
    r = ctx.model_check("cli", "MCReportLoop", "MCReportLoopWindowed.cfg", expect_ok=False)
    if "Invariant Monotone is violated" not in r["out"]:
        raise core.Infra("sensitivity: a report loop that starts afresh after every tick no longer violates Monotone in the model")
    vh = vh or ctx.build_harness()
    md = md or ctx.build_maindrv()
    out = ctx.sub("rloop")
    ctx.run_driver(vh, "TestDrv_ReportLoop", out, {"VERIF_MAINDRV": md})
    n, nev, rej = core.validate_cases(ctx, "cli", "ReportLoopTrace", "ReportLoopTrace.cfg", os.path.join(out, "reportloop.ndjson"), prefix="rloop")
    report_rejections(ctx, rej, signature, "run of the report command rejected by ReportLoop (periodic reports are growing prefixes; the last one is whole unless interrupted)")
    summ = json.load(open(os.path.join(out, "reportloop.summary.json")))
    ctx.coverage.update({"report_loop_runs": summ["runs"], "report_loop_interrupted_runs": summ["interrupted"], "report_loop_documents_compared": summ["reports"],
                         "report_loop_samples": summ["samples"] or ["none"]})
    return n, nev


def run(ctx):
    n, nev = run_part(ctx)
    ctx.coverage.update({"traces_validated_against_impl": n, "trace_events": nev})
    return "model_checking"
