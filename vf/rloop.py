"""RLOOP - the loop of the report command (spec/cli/ReportLoop.tla): periodic reports over a slow input, interrupts.
It is the command-level use of C10's "intermediate Close" clause; C10 runs it too (run_part)."""
import json, os
from . import core
from .main import report_rejections


def signature(lines, off):
    ev = json.loads(lines[off - 1]) if off <= len(lines) else {}
    hdr = json.loads(lines[0]) if lines else {}
    return "ReportLoop:%s:codec=%s:every=%sms:signalled=%s" % (ev.get("e"), hdr.get("codec"), hdr.get("every_ms"), hdr.get("signalled"))


def run_part(ctx, vh=None, md=None):
    ctx.model_check("cli", "MCReportLoop", "MCReportLoop.cfg")
    ctx.model_check("cli", "MCReportLoop", "MCReportLoopLive.cfg")
    r = ctx.model_check("cli", "MCReportLoop", "MCReportLoopWindowed.cfg", expect_ok=False)
    if "Invariant Monotone is violated" not in r["out"]:
        raise core.Infra("sensitivity: a report loop that starts afresh after every tick no longer violates Monotone in the model")
    vh = vh or ctx.build_harness()
    md = md or ctx.build_maindrv()
    out = ctx.sub("rloop")
    ctx.run_driver(vh, "TestDrv_ReportLoop", out, {"VERIF_MAINDRV": md})
    n, nev, rej = core.validate_cases(ctx, "cli", "ReportLoopTrace", "ReportLoopTrace.cfg", os.path.join(out, "reportloop.ndjson"), prefix="rloop")
    report_rejections(ctx, rej, signature, "run of the report command rejected by ReportLoop (periodic reports are growing prefixes; the last one is whole unless interrupted)")
    summ = json.load(open(os.path.join(out, "reportloop.summary.json")))
    ctx.coverage.update({"report_loop_runs": summ["runs"], "report_loop_interrupted_runs": summ["interrupted"], "report_loop_documents_compared": summ["reports"],
                         "report_loop_samples": summ["samples"] or ["none"]})
    return n, nev


def run_cmd_part(ctx, vh=None, md=None, prove=False):
    """the loops of encode and plot (spec/cli/CmdLoop.tla); runs inside C08 and C17, whose anchors include them"""
    vh = vh or ctx.build_harness()
    md = md or ctx.build_maindrv()
    if prove:
        # for every input length: IndInv is inductive and implies the properties (Apalache, N an unconstrained natural number)
        import shutil, subprocess, time
        d = os.path.join(ctx.scratch, "cmdloop-apalache")
        os.makedirs(d, exist_ok=True)
        shutil.copy(os.path.join(core.SPEC, "cli", "CmdLoop.tla"), d)
        for init, inv, length in (("Init", "IndInv", 0), ("IndInit", "IndInv", 1), ("IndInit", "Goal", 0)):
            t = time.time()
            try:
                r = subprocess.run(["apalache-mc", "check", "--cinit=ConstInit", "--init=" + init, "--inv=" + inv, "--length=%d" % length,
                                    "--out-dir=" + os.path.join(d, "apa-out"), "CmdLoop.tla"], cwd=d, capture_output=True, text=True, timeout=600)
            except subprocess.TimeoutExpired:
                raise core.Infra("apalache timed out on CmdLoop %s => %s" % (init, inv))
            if "The outcome is: NoError" not in r.stdout + r.stderr:
                raise core.Infra("CmdLoop: obligation %s => %s does not hold in the model:\n%s" % (init, inv, (r.stdout + r.stderr)[-1500:]))
            ctx.log("apalache CmdLoop %s => %s (length %d): no error in %.1fs" % (init, inv, length, time.time() - t))
        ctx.coverage["cmdloop_unbounded_proof"] = "Apalache: IndInv of CmdLoop.tla inductive and => NoLoss, DoneWritesAll, WholeUnlessInterrupted for every N (both kinds)"
    for cfg in ("MCCmdLoop_encode.cfg", "MCCmdLoop_plot.cfg"):
        ctx.model_check("cli", "MCCmdLoop", cfg)
    r = ctx.model_check("cli", "MCCmdLoop", "MCCmdLoopDrop.cfg", expect_ok=False)
    if "Invariant DoneWritesAll is violated" not in r["out"]:
        raise core.Infra("sensitivity: an encode loop that looks at the signal between Decode and Encode no longer loses a record in the model")
    out2 = ctx.sub("cmdloop")
    ctx.run_driver(vh, "TestDrv_CmdLoop", out2, {"VERIF_MAINDRV": md})
    n2, nev2, rej2 = core.validate_cases(ctx, "cli", "CmdLoopTrace", "CmdLoopTrace.cfg", os.path.join(out2, "cmdloop.ndjson"), prefix="cmdloop")
    report_rejections(ctx, rej2, lambda l, o: "CmdLoop:" + l[0].strip()[:160], "run of the encode / plot command rejected by CmdLoop (the output is the prefix read, whole unless interrupted)")
    summ2 = json.load(open(os.path.join(out2, "cmdloop.summary.json")))
    ctx.coverage.update({"encode_plot_loop_runs": summ2["runs"], "encode_plot_loop_interrupted": summ2["interrupted"],
                         "encode_plot_loop_interrupted_with_partial_output": summ2["interrupted_with_partial_output"]})
    return n2, nev2


def run(ctx):
    n, nev = run_part(ctx)
    n2, nev2 = run_cmd_part(ctx, prove=True)
    n, nev = n + n2, nev + nev2
    ctx.coverage.update({"traces_validated_against_impl": n, "trace_events": nev})
    return "model_checking"
