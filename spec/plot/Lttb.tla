-------------------------------- MODULE Lttb --------------------------------
(***************************************************************************)
(* C17, second half - lttb.Downsample(count, threshold, iterator).          *)
(*                                                                         *)
(* Contract over what the caller observes (out = indexes of the returned   *)
(* points in the original series, err = an error was returned):            *)
(*   threshold >= count or threshold = 0 : the series unchanged            *)
(*   threshold in {1, 2} < count         : an error, no mis-sampling       *)
(*   otherwise: exactly threshold points forming a subsequence of the      *)
(*   original (strictly increasing indexes) that includes the first and    *)
(*   the last point.                                                       *)
(* Implementation-shaped: the bucket arithmetic of lib/lttb/lttb.go in     *)
(* exact rational arithmetic (size = (count-2)/(threshold-2); the float    *)
(* evaluation of the code may differ at knife edges, so only the contract  *)
(* gives verdicts): one iterator request per bucket, any point of the      *)
(* current bucket may be chosen.                                           *)
(***************************************************************************)
EXTENDS Integers, Sequences, FiniteSets

Unchanged(count, threshold) == threshold >= count \/ threshold = 0
MustFail(count, threshold) == ~Unchanged(count, threshold) /\ threshold < 3

StrictlyIncreasing(s) == \A i \in 1..(Len(s) - 1) : s[i] < s[i + 1]

\* out: sequence of indexes 0..count-1 (or -1 for a point that is not one of the original series)
Contract(count, threshold, out, err) ==
    IF MustFail(count, threshold) THEN err
    ELSE /\ ~err
         /\ \A i \in 1..Len(out) : out[i] \in 0..(count - 1)
         /\ IF Unchanged(count, threshold)
            THEN out = [i \in 1..count |-> i - 1]
            ELSE /\ Len(out) = threshold
                 /\ StrictlyIncreasing(out)
                 /\ out[1] = 0 /\ out[Len(out)] = count - 1

(*----- the bucket arithmetic, exact: floor(k * (count-2) / (threshold-2)) -----*)
FloorMul(k, count, threshold) == (k * (count - 2)) \div (threshold - 2)

\* requests issued to the iterator, in order (count > threshold >= 3)
FirstReq(count, threshold) == 1 + FloorMul(1, count, threshold)
BucketReq(i, count, threshold) ==      \* i = 0 .. threshold-3:  hi - lo
    (FloorMul(i + 2, count, threshold) + 1) - (FloorMul(i + 1, count, threshold) + 1)

RECURSIVE SumBuckets(_, _, _)
SumBuckets(i, count, threshold) ==
    IF i < 0 THEN 0 ELSE BucketReq(i, count, threshold) + SumBuckets(i - 1, count, threshold)

\* points taken from the iterator before the request of bucket i:  1 + floor((i+1) * size)
ConsumedBefore(i, count, threshold) == FirstReq(count, threshold) + SumBuckets(i - 1, count, threshold)

\* facts the contract needs from the arithmetic (the iterator returns fewer points than requested when it runs out)
ArithmeticOK(count, threshold) ==
    /\ FirstReq(count, threshold) >= 2                                   \* the first point and a non-empty first bucket
    /\ \A i \in 0..(threshold - 3) :
          /\ BucketReq(i, count, threshold) >= 1                          \* every later bucket is asked for
          /\ ConsumedBefore(i, count, threshold) <= count - 1             \* ... and is non-empty
    /\ ConsumedBefore(threshold - 3, count, threshold) = count - 1        \* the last bucket is exactly the last point,
                                                                          \* so it is returned and differs from the sample before it
=============================================================================
