----------------------------- MODULE PlotTrace -----------------------------
(***************************************************************************)
(* Trace specification for C17.                                            *)
(*  Reset{kind:"lttb"} ; Down{count, threshold, out, err}                  *)
(*      one call of the real lttb.Downsample with an instrumented iterator *)
(*      (out = indexes of the returned points in the original series)      *)
(*  Reset{kind:"plot", threshold, attacks:[{name, results}]} ;             *)
(*  Plot{via, err, labels, rows}                                           *)
(*      results of each attack in sequence order [seq, ms, sub, err, y];   *)
(*      rows = the data rows of the plot in output order [x (ms), label, y]*)
(*      (y = latency in ns as BigNat), taken from Plot.data() through the  *)
(*      verif export or parsed from the HTML written by the plot command.  *)
(***************************************************************************)
EXTENDS Integers, Sequences, FiniteSets, TLC, TraceKit, SequencesExt

B == INSTANCE BigNat
L == INSTANCE Lttb

VARIABLES hdr, l
vars == <<hdr, l>>

TInit == InitHighWater /\ hdr = [kind |-> ""] /\ l = 1

TReset == IsEv(l, "Reset") /\ hdr' = Ev(l) /\ l' = l + 1

TDown == /\ IsEv(l, "Down") /\ hdr.kind = "lttb"
         /\ L!Contract(Ev(l).count, Ev(l).threshold, Ev(l).out, Ev(l).err)
         /\ l' = l + 1 /\ UNCHANGED hdr

(*--------------------------------- plot ---------------------------------*)
LabelOf(name, r) == name \o ": " \o (IF r.err THEN "ERROR" ELSE "OK")
XOf(r, r0) == (r.ms - r0.ms) + (IF r.sub >= r0.sub THEN 0 ELSE -1)

\* expected points of one (attack, label) series, in sequence order
Expected(atk, label) ==
    LET rs == atk.results
        mine == SelectSeq(rs, LAMBDA r : LabelOf(atk.name, r) = label)
    IN  [i \in 1..Len(mine) |-> [x |-> XOf(mine[i], rs[1]), y |-> mine[i].y]]

AllLabels == UNION {{LabelOf(hdr.attacks[a].name, hdr.attacks[a].results[i]) : i \in 1..Len(hdr.attacks[a].results)} : a \in 1..Len(hdr.attacks)}

AttackOf(label) == CHOOSE a \in 1..Len(hdr.attacks) :
                      \E i \in 1..Len(hdr.attacks[a].results) : LabelOf(hdr.attacks[a].name, hdr.attacks[a].results[i]) = label

PointLess(p, q) == p.x < q.x \/ (p.x = q.x /\ B!Lt(p.y, q.y))
Canon(s) == SortSeq(s, PointLess)

Observed(rows, label) ==
    LET mine == SelectSeq(rows, LAMBDA r : r.label = label)
    IN  [i \in 1..Len(mine) |-> [x |-> mine[i].x, y |-> mine[i].y]]

\* is s a subsequence of t (both strictly increasing in x)
RECURSIVE IsSubseq(_, _, _, _)
IsSubseq(s, t, i, j) ==
    IF i > Len(s) THEN TRUE
    ELSE IF j > Len(t) THEN FALSE
    ELSE IF s[i] = t[j] THEN IsSubseq(s, t, i + 1, j + 1)
    ELSE IsSubseq(s, t, i, j + 1)

SeriesOK(rows, label) ==
    LET exp == Expected(hdr.attacks[AttackOf(label)], label)
        obs == Observed(rows, label)
        th == hdr.threshold
    IN IF th = 0 \/ th >= Len(exp)
       THEN Canon(obs) = Canon(exp)                        \* exactly one point per result
       ELSE /\ Len(obs) = th                               \* reduced to exactly threshold points
            /\ obs[1] = exp[1] /\ obs[Len(obs)] = exp[Len(exp)]
            /\ IsSubseq(obs, exp, 1, 1)

MustReject == \E label \in AllLabels :
                 LET n == Len(Expected(hdr.attacks[AttackOf(label)], label)) IN hdr.threshold \in {1, 2} /\ n > hdr.threshold

TPlot == /\ IsEv(l, "Plot") /\ hdr.kind = "plot"
         /\ LET e == Ev(l) IN
            IF MustReject THEN e.err # ""
            ELSE /\ e.err = ""
                 /\ \A i \in 1..(Len(e.rows) - 1) : e.rows[i].x <= e.rows[i + 1].x        \* sorted by x
                 /\ {e.rows[i].label : i \in 1..Len(e.rows)} = AllLabels
                 /\ {e.labels[i] : i \in 2..Len(e.labels)} = AllLabels /\ Len(e.labels) = Cardinality(AllLabels) + 1
                 /\ \A label \in AllLabels : SeriesOK(e.rows, label)
         /\ l' = l + 1 /\ UNCHANGED hdr

TNext == TReset \/ TDown \/ TPlot
TSpec == TInit /\ [][TNext]_vars
HW == HighWater(l)
=============================================================================
