-------------------------------- MODULE Plot --------------------------------
(***************************************************************************)
(* C17, first half - the plot shows every result exactly once, whatever    *)
(* the arrival order.                                                      *)
(*                                                                         *)
(* A result is [attack, seq, ms, sub, err, y]: timestamp = ms milliseconds *)
(* plus sub nanoseconds (0..999999) on an arbitrary origin, y its latency. *)
(* Contract: per attack and label (OK / ERROR) the points                  *)
(*   x = floor((ts - ts0) / 1ms),  ts0 = timestamp of sequence number 0,   *)
(* of all its results.  Implementation-shaped: labeledSeries.add of        *)
(* lib/plot/plot.go - buffer by sequence number, release in order, time    *)
(* origin taken when sequence 0 arrives, the monotonic check of the        *)
(* compressed time series.                                                 *)
(***************************************************************************)
EXTENDS Integers, Sequences, FiniteSets, TLC

Label(r) == IF r.err THEN "ERROR" ELSE "OK"

\* x in milliseconds of result r given the origin result r0
XOf(r, r0) == (r.ms - r0.ms) + (IF r.sub >= r0.sub THEN 0 ELSE -1)

\* results: a set of results of one attack with sequence numbers 0..n-1
BySeq(results, s) == CHOOSE r \in results : r.seq = s

\* contract: the points of one label, in sequence order
ExpectedPoints(results, label) ==
    LET n == Cardinality(results)
        r0 == BySeq(results, 0)
        all == [s \in 1..n |-> BySeq(results, s - 1)]
        mine == SelectSeq(all, LAMBDA r : Label(r) = label)
    IN  [i \in 1..Len(mine) |-> [x |-> XOf(mine[i], r0), y |-> mine[i].y]]

(*--------------------------- labeledSeries.add ---------------------------*)
VARIABLES arrival,  \* the order in which results are presented
          idx,      \* results presented so far
          buf,      \* buffered results (by sequence number)
          nextSeq,  \* ls.seq
          began,    \* the origin result, << >> before sequence 0 arrived
          series,   \* label -> sequence of points
          prev,     \* label -> last x pushed (monotonic check)
          failed    \* the monotonic check failed

pvars == <<arrival, idx, buf, nextSeq, began, series, prev, failed>>

PInit(order) == /\ arrival = order /\ idx = 0 /\ buf = {} /\ nextSeq = 0 /\ began = << >>
                /\ series = [lb \in {"OK", "ERROR"} |-> << >>] /\ prev = [lb \in {"OK", "ERROR"} |-> 0]
                /\ failed = FALSE

\* release everything that is in sequence; returns [series, prev, next, buf, failed]
RECURSIVE Flush(_, _, _, _, _, _)
Flush(b, nx, org, ser, pv, bad) ==
    IF \E r \in b : r.seq = nx
    THEN LET r == CHOOSE r \in b : r.seq = nx
             x == XOf(r, org)
             lb == Label(r)
         IN IF pv[lb] > x THEN [series |-> ser, prev |-> pv, next |-> nx, buf |-> b \ {r}, failed |-> TRUE]
            ELSE Flush(b \ {r}, nx + 1, org, [ser EXCEPT ![lb] = Append(@, [x |-> x, y |-> r.y])], [pv EXCEPT ![lb] = x], bad)
    ELSE [series |-> ser, prev |-> pv, next |-> nx, buf |-> b, failed |-> bad]

PAdd ==
    /\ idx < Len(arrival) /\ ~failed
    /\ LET r == arrival[idx + 1] IN
       IF r.seq # nextSeq
       THEN /\ buf' = buf \cup {r} /\ UNCHANGED <<nextSeq, began, series, prev, failed>>     \* buffer
       ELSE LET org == IF nextSeq = 0 THEN r ELSE began
                f == Flush(buf \cup {r}, nextSeq, org, series, prev, FALSE)
            IN /\ began' = org /\ buf' = f.buf /\ nextSeq' = f.next
               /\ series' = f.series /\ prev' = f.prev /\ failed' = f.failed
    /\ idx' = idx + 1
    /\ UNCHANGED arrival

Done == idx = Len(arrival)

\* whatever the arrival order, every result is plotted exactly once at its place
OrderIndependent(results) ==
    Done => /\ ~failed /\ buf = {}
            /\ \A lb \in {"OK", "ERROR"} : series[lb] = ExpectedPoints(results, lb)
=============================================================================
