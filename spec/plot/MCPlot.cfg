CONSTANTS
  MaxN = 4
  MaxCount = 64
SPECIFICATION Spec
INVARIANT PlotOK
CHECK_DEADLOCK FALSE
