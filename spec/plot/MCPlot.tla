------------------------------- MODULE MCPlot -------------------------------
EXTENDS Plot, Lttb, SequencesExt

CONSTANTS MaxN, MaxCount

\* result sets with contiguous sequence numbers: per result a millisecond step (0 or 1) from its predecessor,
\* a sub-millisecond part and an OK/ERROR flag; timestamps must not decrease with the sequence number (C05)
RECURSIVE MsOf(_, _)
MsOf(step, s) == IF s = 0 THEN step[1] ELSE step[s + 1] + MsOf(step, s - 1)

ResultSets ==
    UNION { { {[attack |-> "a", seq |-> s, ms |-> MsOf(st, s), sub |-> sb[s + 1], err |-> e[s + 1], y |-> 10 + s] : s \in 0..(n - 1)}
              : st \in [1..n -> {0, 1}], sb \in [1..n -> {100000, 600000}], e \in [1..n -> BOOLEAN] }
            : n \in 1..MaxN }

Monotone(rs) == \A a, b \in rs : a.seq < b.seq => (a.ms < b.ms \/ (a.ms = b.ms /\ a.sub <= b.sub))
GoodSets == {rs \in ResultSets : Monotone(rs)}

VARIABLE results

Init == /\ results \in GoodSets
        /\ \E order \in {SetToSeq(results)} \cup SetToSeqs(results) : PInit(order)
Next == PAdd /\ UNCHANGED results
Spec == Init /\ [][Next]_<<results, arrival, idx, buf, nextSeq, began, series, prev, failed>>

PlotOK == OrderIndependent(results)

ASSUME LttbArithmetic ==
    \A count \in 4..MaxCount : \A threshold \in 3..(count - 1) : ArithmeticOK(count, threshold)
=============================================================================
