CONSTANTS
  MaxInt = 200
  GuardStrict = FALSE
  ZeroIntervalOK = TRUE
  Freqs <- FreqsBig
  Pers <- PersBig
  Stalls = {1, 3}
  MaxT = 210
  MaxHits = 30
SPECIFICATION LSpec
INVARIANTS NoBad UpperOK LowerOK
CHECK_DEADLOCK FALSE
