------------------------------- MODULE Pacer -------------------------------
(***************************************************************************)
(* C01 - pacers keep the hit count on their declared schedule.             *)
(*                                                                         *)
(* Implementation-shaped part: CPace is the exact integer transcription of *)
(* ConstantPacer.Pace (lib/pacer.go): Go's truncated division, the coarse  *)
(* catch-up test on whole units, the zero-interval case, the overflow      *)
(* guard against MaxInt and delta - elapsed.  Variants reproduce the two   *)
(* historic defects (sensitivity).                                         *)
(*                                                                         *)
(* Contract part: the closed loop of an attacker that follows the pacer    *)
(* exactly (Consult, Sleep, Release) with arbitrary stalls, and the        *)
(* clauses Upper, WaitOnlyWhenAhead, Lower, StopRules, NoWrap for the      *)
(* constant pacer in exact integer arithmetic:  H(t) = freq * t / per.     *)
(***************************************************************************)
EXTENDS Integers, Sequences, FiniteSets, TLC

CONSTANTS MaxInt,          \* math.MaxInt64 in the code; small in the model
          GuardStrict,     \* TRUE: historic guard  MaxInt/interval <  hits  (off by one)
          ZeroIntervalOK   \* TRUE: current code returns (0, false) when Per/Freq truncates to 0;
                           \* FALSE: historic code divides by zero ("panic")

\* Go integer division truncates toward zero
GoDiv(a, b) == IF (a >= 0) = (b > 0) THEN (IF a >= 0 THEN a \div b ELSE (-a) \div (-b))
               ELSE -((IF a >= 0 THEN a ELSE -a) \div (IF b > 0 THEN b ELSE -b))

\* result of Pace: [wait, stop, panic]
Res(w, s) == [wait |-> w, stop |-> s, panic |-> FALSE]
Panic == [wait |-> 0, stop |-> FALSE, panic |-> TRUE]

\* ConstantPacer{Freq: freq, Per: per}.Pace(elapsed, hits), elapsed >= 0, hits >= 0
CPace(freq, per, elapsed, hits) ==
    IF per = 0 \/ freq = 0 THEN Res(0, FALSE)                 \* zero value = infinite rate
    ELSE IF per < 0 \/ freq < 0 THEN Res(0, TRUE)
    ELSE LET expected == freq * GoDiv(elapsed, per)           \* uint64(cp.Freq) * uint64(elapsed/cp.Per)
         IN  IF hits < expected THEN Res(0, FALSE)            \* running behind
             ELSE LET interval == GoDiv(per, freq) IN
                  IF interval = 0
                  THEN (IF ZeroIntervalOK THEN Res(0, FALSE) ELSE Panic)
                  ELSE IF (IF GuardStrict THEN GoDiv(MaxInt, interval) < hits ELSE GoDiv(MaxInt, interval) <= hits)
                       THEN Res(0, TRUE)                      \* would overflow delta
                       ELSE Res((hits + 1) * interval - elapsed, FALSE)

\* the product the code computes must itself fit (otherwise Go wraps silently)
Wraps(freq, per, elapsed, hits) ==
    /\ freq > 0 /\ per > 0
    /\ ~(hits < freq * GoDiv(elapsed, per))
    /\ GoDiv(per, freq) # 0
    /\ ~CPace(freq, per, elapsed, hits).stop
    /\ (hits + 1) * GoDiv(per, freq) > MaxInt

(*----------------------------- closed loop ------------------------------*)
CONSTANTS Freqs, Pers, Stalls, MaxT, MaxHits

VARIABLES freq, per, t, hits, phase, wait, stalled, bad

lvars == <<freq, per, t, hits, phase, wait, stalled, bad>>

LInit == /\ freq \in Freqs /\ per \in Pers
         /\ t = 0 /\ hits = 0 /\ phase = "consult" /\ wait = 0 /\ stalled = FALSE /\ bad = "none"

\* the schedule in exact arithmetic (freq, per > 0):  H(t) = freq*t/per
\* Upper:  hits <= H(t) + 1 + q,  q = hits*freq/per (one nanosecond of quantisation per hit interval)
UpperOK == (freq > 0 /\ per > 0) => hits * per <= freq * t + per + hits * freq
\* Lower, on stall-free runs, at releases:  hits >= H(t) - 1 - q
LowerOK == (freq > 0 /\ per > 0 /\ ~stalled /\ phase = "consult" /\ hits > 0) => hits * per + per + hits * freq >= freq * t

Consult ==
    /\ phase = "consult" /\ bad = "none"
    /\ LET r == CPace(freq, per, t, hits) IN
       IF r.panic THEN bad' = "panic" /\ UNCHANGED <<phase, wait>>
       ELSE IF Wraps(freq, per, t, hits) THEN bad' = "wrap" /\ UNCHANGED <<phase, wait>>
       ELSE IF r.stop
            THEN /\ phase' = "stopped" /\ UNCHANGED wait
                 \* StopRules: negative parameters stop at once; positive ones only on overflow
                 /\ bad' = IF (freq < 0 \/ per < 0) \/ (freq > 0 /\ per > 0 /\ (hits + 1) * GoDiv(per, freq) > MaxInt)
                           THEN "none" ELSE "stop without reason"
            ELSE /\ phase' = "sleep" /\ wait' = r.wait
                 \* zero parameters never wait; WaitOnlyWhenAhead: a positive wait only if hits >= floor(H(t))
                 /\ bad' = IF (freq = 0 \/ per = 0) /\ r.wait # 0 THEN "unlimited rate waits"
                           ELSE IF freq # 0 /\ per # 0 /\ (freq < 0 \/ per < 0) THEN "negative parameters do not stop"   \* (a zero one means unlimited first)
                           ELSE IF freq > 0 /\ per > 0 /\ r.wait > 0 /\ ~((hits + 1) * per > freq * t) THEN "waits while behind"
                           ELSE "none"
    /\ UNCHANGED <<freq, per, t, hits, stalled>>

Sleep ==
    /\ phase = "sleep"
    /\ t' = t + (IF wait > 0 THEN wait ELSE 0)
    /\ phase' = "release"
    /\ UNCHANGED <<freq, per, hits, wait, stalled, bad>>

\* an arbitrary extra delay between any two steps
Stall ==
    /\ phase \in {"sleep", "release", "consult"} /\ bad = "none"
    /\ \E d \in Stalls : d > 0 /\ t' = t + d
    /\ stalled' = TRUE
    /\ UNCHANGED <<freq, per, hits, phase, wait, bad>>

Release ==
    /\ phase = "release"
    /\ hits' = hits + 1
    /\ phase' = "consult"
    /\ UNCHANGED <<freq, per, t, wait, stalled, bad>>

LNext == (t <= MaxT /\ hits < MaxHits) /\ (Consult \/ Sleep \/ Stall \/ Release)

LSpec == LInit /\ [][LNext]_lvars

NoBad == bad = "none"
==============================================================================
