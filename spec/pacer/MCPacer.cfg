CONSTANTS
  MaxInt = 60
  GuardStrict = FALSE
  ZeroIntervalOK = TRUE
  Freqs <- FreqsSmall
  Pers <- PersSmall
  Stalls = {1, 3}
  MaxT = 70
  MaxHits = 14
SPECIFICATION LSpec
INVARIANTS NoBad UpperOK LowerOK
CHECK_DEADLOCK FALSE
