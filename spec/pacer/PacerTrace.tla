----------------------------- MODULE PacerTrace -----------------------------
(***************************************************************************)
(* Trace specification for C01.  The harness runs a closed loop around the *)
(* real pacers in virtual time (follow the pacer exactly: sleep as long as *)
(* told, then release one hit; seeded stall histories) and logs            *)
(*   Reset  {kind, ...parameters...}                                       *)
(*   Consult{t, hits, wsign, wait, stop, ...}   Pace(t, hits) = (wait,stop)*)
(*   Stall  {d}                                 an extra delay             *)
(*   Release{t, ...}                            one hit issued at t        *)
(*   (Panic has no action)                                                 *)
(* Times are BigNat nanoseconds.  For the constant pacer the schedule      *)
(* H(t) = freq*t/per is evaluated exactly by cross-multiplication; for the *)
(* sine and linear pacers the driver supplies hlo = floor(H(t) - 1e-6) and *)
(* hhi = ceil(H(t) + 1e-6) from the closed form of the declared integral   *)
(* (TLA+ has no transcendental functions); the clauses are decided here.   *)
(* With CheckExact the returned wait of the constant pacer must also equal *)
(* the transcription of Pacer.tla (implementation layer: model drift only).*)
(***************************************************************************)
EXTENDS Integers, Sequences, FiniteSets, TLC, TraceKit

CONSTANT CheckExact

B == INSTANCE BigNat

VARIABLES p,        \* parameters of the pacer (the Reset record)
          t,        \* virtual now (BigNat ns)
          hits,     \* hits released (BigNat)
          nhits,    \* the same as a TLC integer (closed loops stay small)
          phase,    \* "consult" | "sleep" | "stopped"
          due,      \* instant at which the sleep ends
          stalled,  \* a stall has occurred in this run
          l

vars == <<p, t, hits, nhits, phase, due, stalled, l>>

MaxInt64 == <<5807, 5477, 368, 3372, 922>>      \* 9223372036854775807
ASSUME B!Eq(B!Add(MaxInt64, <<1>>), B!Mul(B!Mul(B!FromNat(2097152), B!FromNat(2097152)), B!FromNat(2097152)))     \* (the limbs were once mistyped: the constant is checked, not trusted)

One == <<1>>
N(x) == B!FromNat(x)

TInit == InitHighWater /\ p = [kind |-> "none"] /\ t = << >> /\ hits = << >> /\ nhits = 0
         /\ phase = "stopped" /\ due = << >> /\ stalled = FALSE /\ l = 1

TReset == /\ IsEv(l, "Reset")
          /\ p' = Ev(l) /\ t' = << >> /\ hits' = << >> /\ nhits' = 0 /\ phase' = "consult"
          /\ due' = << >> /\ stalled' = FALSE
          /\ l' = l + 1

Positive == p.kind = "constant" /\ p.fsign = 1 /\ p.psign = 1

\* --- constant pacer, exact: H(t) = F*t/P
F == p.freq
P == p.per

\* hits+1 > H(t)   <=>  (hits+1)*P > F*t
AheadOrOn(e) == B!Gt(B!Mul(B!Add(hits, One), P), B!Mul(F, e.t))

\* the transcription of ConstantPacer.Pace for positive parameters, with division witnesses
\*   e.ediv = [q, r] for t / P ,  p.idiv = [q, r] for P / F
ExactWait(e) ==
    /\ B!IsDivMod(e.t, P, e.ediv.q, e.ediv.r)
    /\ B!IsDivMod(P, F, p.idiv.q, p.idiv.r)
    /\ LET expected == B!Mul(F, e.ediv.q)
           interval == p.idiv.q
       IN IF B!Lt(hits, expected) THEN ~e.stop /\ e.wsign = 0
          ELSE IF interval = << >> THEN ~e.stop /\ e.wsign = 0
          ELSE LET delta == B!Mul(B!Add(hits, One), interval) IN
               IF B!Gt(delta, MaxInt64) THEN e.stop
               ELSE /\ ~e.stop
                    /\ IF B!Gt(delta, e.t) THEN e.wsign = 1 /\ e.wait = B!Sub(delta, e.t)
                       ELSE IF B!Eq(delta, e.t) THEN e.wsign = 0
                       ELSE e.wsign = -1 /\ e.wait = B!Sub(e.t, delta)

ConstantConsultOK(e) ==
    IF p.fsign = 0 \/ p.psign = 0 THEN ~e.stop /\ e.wsign = 0           \* zero means unlimited rate
    ELSE IF p.fsign < 0 \/ p.psign < 0 THEN e.stop                     \* negative stops the attack
    ELSE /\ B!IsDivMod(P, F, p.idiv.q, p.idiv.r)
         /\ IF e.stop
            THEN \* only arithmetic overflow may stop a valid pacer: (hits+1)*interval would exceed MaxInt64
                 p.idiv.q # << >> /\ B!Gt(B!Mul(B!Add(hits, One), p.idiv.q), MaxInt64)
            ELSE /\ (e.wsign = 1 => AheadOrOn(e))                        \* WaitOnlyWhenAhead
                 /\ (e.wsign = 1 => B!Le(B!Add(e.t, e.wait), MaxInt64))   \* NoWrap: a real duration, not a wrapped one
                 \* NoSilentOverflow: when the count is not behind, the instant of the next hit, (hits+1)*interval, is
                 \* representable - otherwise the pacer has to stop ("overflow stops the attack instead of wrapping")
                 /\ B!IsDivMod(e.t, P, e.ediv.q, e.ediv.r)
                 /\ ((~B!Lt(hits, B!Mul(F, e.ediv.q)) /\ p.idiv.q # << >>)
                        => B!Le(B!Mul(B!Add(hits, One), p.idiv.q), MaxInt64))
         /\ (CheckExact => ExactWait(e))

\* --- sine / linear pacers: schedule bounds supplied with the event
FloatConsultOK(e) ==
    IF p.invalid THEN e.stop                                           \* documented constraints violated: stop at once
    ELSE IF p.unlimited THEN ~e.stop /\ e.wsign = 0
    ELSE /\ (~e.stop \/ ("crossed" \in DOMAIN e /\ e.crossed))         \* bounded loops never reach the overflow stop; a ramp followed down to a rate of zero may stop there
         /\ (e.wsign = 1 => nhits >= e.hlo)                            \* WaitOnlyWhenAhead
         /\ e.wsign >= 0

TConsult ==
    /\ IsEv(l, "Consult") /\ phase = "consult"
    /\ LET e == Ev(l) IN
       /\ e.t = t /\ e.hits = hits
       /\ IF p.kind = "constant" THEN ConstantConsultOK(e) ELSE FloatConsultOK(e)
       /\ IF e.stop THEN phase' = "stopped" /\ UNCHANGED due
          ELSE phase' = "sleep" /\ due' = IF e.wsign = 1 THEN B!Add(t, e.wait) ELSE t
    /\ l' = l + 1
    /\ UNCHANGED <<p, t, hits, nhits, stalled>>

\* the pacer is a function of (elapsed, hits): it may be asked about any point, not only those a closed loop reaches
TJump ==
    /\ IsEv(l, "Jump")
    /\ t' = Ev(l).t /\ hits' = Ev(l).hits /\ phase' = "consult" /\ due' = << >> /\ stalled' = TRUE
    /\ l' = l + 1
    /\ UNCHANGED <<p, nhits>>

\* an arbitrary extra delay (between the consultation and the release, or after the release)
TStall ==
    /\ IsEv(l, "Stall") /\ phase \in {"sleep", "consult"}
    /\ IF phase = "sleep" THEN due' = B!Add(due, Ev(l).d) /\ UNCHANGED t
                          ELSE t' = B!Add(t, Ev(l).d) /\ UNCHANGED due
    /\ stalled' = TRUE
    /\ l' = l + 1
    /\ UNCHANGED <<p, hits, nhits, phase>>

\* the hit is issued exactly when the sleep (plus stalls) is over
TRelease ==
    /\ IsEv(l, "Release") /\ phase = "sleep"
    /\ LET e == Ev(l)
           h1 == B!Add(hits, One)
       IN
       /\ e.t = due
       \* the instantaneous rate the pacer declares (Pacer.Rate) is the derivative of the schedule the loop is held to (1 ppm)
       /\ ("rdev" \in DOMAIN e => e.rdev <= 1000)
       /\ IF Positive
          THEN \* Upper:  hits <= H(t) + 1 + q      <=>  hits*P <= F*t + P + hits*F
               /\ B!Le(B!Mul(h1, P), B!Add(B!Add(B!Mul(F, e.t), P), B!Mul(h1, F)))
               \* Lower (stall-free):  hits >= H(t) - 1 - q  <=>  hits*P + P + hits*F >= F*t
               /\ (~stalled => B!Ge(B!Add(B!Add(B!Mul(h1, P), P), B!Mul(h1, F)), B!Mul(F, e.t)))
          ELSE IF p.kind \in {"sine", "linear"} /\ ~p.unlimited
          THEN /\ nhits + 1 <= e.hhi + 1                                   \* Upper
               \* Lower: one hit, plus one nanosecond of quantisation per hit interval (p.qe4 = the peak rate in 1e-4 hits/ns, rounded up)
               /\ (p.kind = "sine" /\ ~stalled => nhits + 1 + (((nhits + 1) * p.qe4 + 9999) \div 10000) >= e.hlo - 1)
          ELSE TRUE
       /\ t' = due /\ hits' = h1 /\ nhits' = nhits + 1
    /\ phase' = "consult"
    /\ l' = l + 1
    /\ UNCHANGED <<p, due, stalled>>

TNext == TReset \/ TConsult \/ TStall \/ TRelease \/ TJump
TSpec == TInit /\ [][TNext]_vars
HW == HighWater(l)
=============================================================================
