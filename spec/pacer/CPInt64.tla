------------------------------ MODULE CPInt64 ------------------------------
(***************************************************************************)
(* ConstantPacer.Pace over the full int64 / uint64 ranges, for Apalache     *)
(* (TLC integers are 32-bit).  The state is one arbitrary call             *)
(* Pace(elapsed, hits) of ConstantPacer{freq, per}; the invariants are     *)
(* checked symbolically for every such call (--length=0).                  *)
(***************************************************************************)
EXTENDS Integers

MaxInt64 == 9223372036854775807
TwoTo64 == 18446744073709551616

VARIABLES
    \* @type: Int;
    freq,
    \* @type: Int;
    per,
    \* @type: Int;
    elapsed,
    \* @type: Int;
    hits

\* positive parameters, non-negative elapsed time, any uint64 hit count
Init ==
    /\ freq \in 1..MaxInt64
    /\ per \in 1..MaxInt64
    /\ elapsed \in 0..MaxInt64
    /\ hits \in 0..(TwoTo64 - 1)

Next == UNCHANGED <<freq, per, elapsed, hits>>

\* uint64(cp.Freq) * uint64(elapsed/cp.Per) wraps modulo 2^64
Expected == (freq * (elapsed \div per)) % TwoTo64
Behind == hits < Expected
Interval == per \div freq
GuardStop == Interval > 0 /\ (MaxInt64 \div Interval) <= hits          \* current code: <=
OldGuardStop == Interval > 0 /\ (MaxInt64 \div Interval) < hits        \* historic code: <
Delta == (hits + 1) * Interval
Wait == Delta - elapsed
Computes == ~Behind /\ Interval > 0 /\ ~GuardStop                      \* the branch that returns delta - elapsed

\* arithmetic overflow stops the attack instead of wrapping
NoWrap == Computes => Delta <= MaxInt64
\* ... and only then
StopOnlyOnOverflow == (~Behind /\ GuardStop) => Delta > MaxInt64
\* a positive wait only when the count is on or ahead of the schedule freq*t/per
WaitOnlyWhenAhead == (Computes /\ Wait > 0) => (hits + 1) * per > freq * elapsed
\* the returned wait is a representable duration
WaitFits == Computes => (Wait <= MaxInt64 /\ Wait >= -MaxInt64)

\* sensitivity: the historic guard lets a wrapping product through (Apalache must find a counterexample)
OldNoWrap == (~Behind /\ Interval > 0 /\ ~OldGuardStop) => Delta <= MaxInt64
=============================================================================
