------------------------------ MODULE MCPacer ------------------------------
EXTENDS Pacer
\* TLC configuration files cannot write negative numbers
FreqsSmall == -1..5
PersSmall == -1..7
FreqsBig == -1..9
PersBig == -1..12
=============================================================================
