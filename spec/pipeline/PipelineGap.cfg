CONSTANTS
  N = 4
  OrderViolated = FALSE
SPECIFICATION Spec
INVARIANTS PlotShowsWholeFile
CHECK_DEADLOCK FALSE
