CONSTANTS
  N = 4
  OrderViolated = FALSE
SPECIFICATION Spec
INVARIANTS ReportOfPrefix PlotOfPrefix PlotOfWhole NoMonotonicError
CHECK_DEADLOCK FALSE
