------------------------------ MODULE Pipeline ------------------------------
(***************************************************************************)
(* Composition of the families: one attack produces results (sequence      *)
(* number, timestamp) that reach the caller in completion order; the       *)
(* command's pump writes each one to the output as it arrives; the writer  *)
(* may be killed at any byte; report and plot read the file.               *)
(* Records are ids = sequence numbers.  The facts below are cross-family   *)
(* consequences of the per-family contracts:                               *)
(*   C02 SeqExact      a cleanly ended attack delivered exactly 0..n-1     *)
(*   C05 OrderAgree    timestamps do not decrease with the sequence number *)
(*   C09 CleanPrefix   a killed writer leaves a clean prefix of arrivals   *)
(*   C10 Reference     the report is a function of the bag of results read *)
(*   C17               the plot buffers by sequence number and releases in *)
(*                     order, from sequence 0                              *)
(* TLC checks, for every arrival order of up to N results and every cut:   *)
(*   ReportOfPrefix    the report counts exactly the complete records      *)
(*   PlotOfPrefix      the plot shows exactly the longest run 0..k-1 that  *)
(*                     is wholly inside the prefix - so the plot of a      *)
(*                     killed attack's file can silently omit results that *)
(*                     the report counts (they wait behind a gap for ever) *)
(*   PlotOfWhole       with the whole file (clean end) the plot shows all  *)
(*   NoMonotonicError  given C05, no arrival order makes the plot fail;    *)
(*                     with an inverted timestamp some order does          *)
(*                     (OrderViolated = TRUE is the sensitivity run)       *)
(***************************************************************************)
EXTENDS Integers, Sequences, FiniteSets, TLC

CONSTANTS N, OrderViolated

VARIABLES arrival,   \* completion order: a permutation of 0..n-1
          ts,        \* ts[s] = timestamp of sequence number s (in ms)
          cut,       \* number of complete records in the file (the writer was killed after them, possibly mid-record)
          phase, fed, buf, nextSeq, shown, prevX, perr

vars == <<arrival, ts, cut, phase, fed, buf, nextSeq, shown, prevX, perr>>

Perms(n) == {p \in [1..n -> 0..(n - 1)] : \A i, j \in 1..n : i # j => p[i] # p[j]}
NonDecreasing(f, n) == \A a, b \in 0..(n - 1) : a < b => f[a] <= f[b]

Init == \E n \in 1..N :
          /\ arrival \in Perms(n)
          /\ ts \in [0..(n - 1) -> 0..2]
          /\ (IF OrderViolated THEN ~NonDecreasing(ts, n) ELSE NonDecreasing(ts, n))
          /\ cut \in 0..n
          /\ phase = "plot" /\ fed = 0 /\ buf = {} /\ nextSeq = 0 /\ shown = << >> /\ prevX = 0 /\ perr = FALSE

FileRecords == SubSeq(arrival, 1, cut)           \* C09: exactly the complete records, in arrival order
FileSet == {FileRecords[i] : i \in 1..cut}

\* the plot command feeds the records of the file, in file order, to labeledSeries.add (one label here)
RECURSIVE Flush(_, _, _, _, _)
Flush(b, nx, sh, px, org) ==
    IF nx \in b
    THEN LET x == ts[nx] - org IN
         IF px > x THEN [buf |-> b \ {nx}, next |-> nx, shown |-> sh, prev |-> px, err |-> TRUE]
         ELSE Flush(b \ {nx}, nx + 1, Append(sh, nx), x, org)
    ELSE [buf |-> b, next |-> nx, shown |-> sh, prev |-> px, err |-> FALSE]

Feed ==
    /\ phase = "plot" /\ fed < cut /\ ~perr
    /\ LET s == FileRecords[fed + 1] IN
       IF s # nextSeq THEN /\ buf' = buf \cup {s} /\ UNCHANGED <<nextSeq, shown, prevX, perr>>
       ELSE LET f == Flush(buf \cup {s}, nextSeq, shown, prevX, ts[0]) IN
            /\ buf' = f.buf /\ nextSeq' = f.next /\ shown' = f.shown /\ prevX' = f.prev /\ perr' = f.err
    /\ fed' = fed + 1
    /\ UNCHANGED <<arrival, ts, cut, phase>>

Finish == /\ phase = "plot" /\ (fed = cut \/ perr) /\ phase' = "done"
          /\ UNCHANGED <<arrival, ts, cut, fed, buf, nextSeq, shown, prevX, perr>>

Next == Feed \/ Finish
Spec == Init /\ [][Next]_vars

n == Len(arrival)
\* the longest run 0..k-1 wholly inside the file
RunLen == CHOOSE k \in 0..n : (\A s \in 0..(k - 1) : s \in FileSet) /\ (k = n \/ k \notin FileSet)

ReportOfPrefix == Cardinality(FileSet) = cut
PlotOfPrefix == (phase = "done" /\ ~perr) => shown = [i \in 1..RunLen |-> i - 1]
PlotOfWhole == (phase = "done" /\ ~perr /\ cut = n) => Len(shown) = n
NoMonotonicError == ~perr
\* the observation: a killed file can hold records the plot never shows
PlotShowsWholeFile == (phase = "done" /\ ~perr) => Len(shown) = cut
=============================================================================
