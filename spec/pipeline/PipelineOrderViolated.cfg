CONSTANTS
  N = 4
  OrderViolated = TRUE
SPECIFICATION Spec
INVARIANTS NoMonotonicError
CHECK_DEADLOCK FALSE
