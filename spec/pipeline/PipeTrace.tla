------------------------------ MODULE PipeTrace ------------------------------
(***************************************************************************)
(* Conformance of the composition (Pipeline.tla) with the real commands:   *)
(* results of one attack are written in an arrival order with the real gob *)
(* encoder, the file is cut after `cut` complete records (optionally in    *)
(* the middle of the next one), then `vegeta report -type=json` and        *)
(* `vegeta plot` (in-process driver of package main) read it.              *)
(*   Pipe{arrival, cut, torn, report_err, requests, plot_err, points}      *)
(* A torn tail makes the commands fail with an error (C09: "or an error"); *)
(* otherwise the report counts exactly the complete records and the plot   *)
(* shows exactly the longest run of sequence numbers from 0 inside them.   *)
(***************************************************************************)
EXTENDS Integers, Sequences, FiniteSets, TLC, TraceKit
VARIABLES l
TInit == InitHighWater /\ l = 1
TReset == IsEv(l, "Reset") /\ l' = l + 1

FileSet(e) == {e.arrival[i] : i \in 1..e.cut}
RunLen(e) == LET n == Len(e.arrival) IN
             CHOOSE k \in 0..n : (\A s \in 0..(k - 1) : s \in FileSet(e)) /\ (k = n \/ k \notin FileSet(e))

TPipe == /\ IsEv(l, "Pipe")
         /\ LET e == Ev(l) IN
            /\ (e.torn \/ e.cut = 0 => TRUE)                                   \* a torn or empty file may be refused
            /\ (~e.torn /\ e.cut > 0 => e.report_err = "" /\ e.plot_err = "")    \* a clean prefix is readable
            /\ (e.report_err = "" => e.requests = e.cut)                         \* ReportOfPrefix
            /\ (e.plot_err = "" => e.points = RunLen(e))                         \* PlotOfPrefix
         /\ l' = l + 1
TNext == TReset \/ TPipe
TSpec == TInit /\ [][TNext]_<<l>>
HW == HighWater(l)
=============================================================================
