--------------------------- MODULE TraceKit ---------------------------
(***************************************************************************)
(* Shared plumbing of every trace specification.                           *)
(*   TraceLog  the ndjson file named by the environment variable TRACE,   *)
(*             one record per abstract event logged by a driver running    *)
(*             the real code; several runs are concatenated, each started  *)
(*             by an event whose "e" field is "Reset".                     *)
(*   The trace spec has a cursor variable l; an action consumes event      *)
(*   TraceLog[l].  HighWater records the furthest l reached on any branch  *)
(*   (TLCSet register 1; run with -workers 1); the trace is accepted iff   *)
(*   the high-water mark is Len(TraceLog)+1.  On rejection the position    *)
(*   and the offending event are printed for the orchestrator.             *)
(***************************************************************************)
EXTENDS Naturals, Sequences, TLC, TLCExt, Json, IOUtils

TraceLog == ndJsonDeserialize(IOEnv.TRACE)

NEvents == Len(TraceLog)

Ev(l) == TraceLog[l]

IsEv(l, name) == l <= NEvents /\ TraceLog[l].e = name

Has(r, f) == f \in DOMAIN r

\* state constraint: always TRUE, records the high-water mark
HighWater(l) == 
    /\ IF TLCGet(1) < l THEN TLCSet(1, l) ELSE TRUE
    /\ TRUE

InitHighWater == TLCSet(1, 0)

Accepted ==
    IF TLCGet(1) = NEvents + 1
    THEN PrintT(<<"TRACE-ACCEPTED", NEvents>>)
    ELSE /\ PrintT(<<"TRACE-REJECTED", TLCGet(1)>>)
         /\ PrintT(<<"TRACE-REJECTED-EVENT", ToJson(TraceLog[TLCGet(1)])>>)
         /\ FALSE
=======================================================================
