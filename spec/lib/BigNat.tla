--------------------------- MODULE BigNat ---------------------------
(***************************************************************************)
(* Natural numbers beyond TLC's 32-bit integers.  A number is a sequence   *)
(* of limbs in base 10^4, least significant first, without trailing zero  *)
(* limbs (zero is the empty sequence).  Drivers log 64-bit quantities     *)
(* (nanoseconds, byte sums, products freq*t) in this form; the trace      *)
(* specifications compare and combine them with the operators below.      *)
(* Limb products stay below 10^8 and carries below 2*10^4, so nothing     *)
(* here can overflow a TLC integer.                                       *)
(***************************************************************************)
EXTENDS Naturals, Sequences

Base == 10000

IsBig(a) == /\ DOMAIN a = 1..Len(a)
            /\ \A i \in 1..Len(a) : a[i] \in 0..(Base - 1)
            /\ (Len(a) > 0 => a[Len(a)] # 0)

Zero == << >>

RECURSIVE Trim(_)
Trim(a) == IF Len(a) > 0 /\ a[Len(a)] = 0 THEN Trim(SubSeq(a, 1, Len(a) - 1)) ELSE a

RECURSIVE FromNat(_)
FromNat(n) == IF n = 0 THEN << >> ELSE <<n % Base>> \o FromNat(n \div Base)

Limb(a, i) == IF i <= Len(a) THEN a[i] ELSE 0

Max2(x, y) == IF x >= y THEN x ELSE y

\* -1, 0, 1 as "LT", "EQ", "GT"
RECURSIVE CmpFrom(_, _, _)
CmpFrom(a, b, i) ==
    IF i = 0 THEN "EQ"
    ELSE IF Limb(a, i) < Limb(b, i) THEN "LT"
    ELSE IF Limb(a, i) > Limb(b, i) THEN "GT"
    ELSE CmpFrom(a, b, i - 1)

Cmp(a, b) == CmpFrom(a, b, Max2(Len(a), Len(b)))

Le(a, b) == Cmp(a, b) # "GT"
Lt(a, b) == Cmp(a, b) = "LT"
Eq(a, b) == Cmp(a, b) = "EQ"
Ge(a, b) == Le(b, a)
Gt(a, b) == Lt(b, a)

RECURSIVE AddFrom(_, _, _, _)
AddFrom(a, b, i, carry) ==
    IF i > Max2(Len(a), Len(b))
    THEN IF carry = 0 THEN << >> ELSE <<carry>>
    ELSE LET s == Limb(a, i) + Limb(b, i) + carry
         IN  <<s % Base>> \o AddFrom(a, b, i + 1, s \div Base)

Add(a, b) == AddFrom(a, b, 1, 0)

\* a - b for a >= b
RECURSIVE SubFrom(_, _, _, _)
SubFrom(a, b, i, borrow) ==
    IF i > Len(a) THEN << >>
    ELSE LET d == Limb(a, i) + Base - Limb(b, i) - borrow
         IN  <<d % Base>> \o SubFrom(a, b, i + 1, IF d < Base THEN 1 ELSE 0)

Sub(a, b) == Trim(SubFrom(a, b, 1, 0))

\* a * k for a small natural k < 10^5
RECURSIVE MulSmallFrom(_, _, _, _)
MulSmallFrom(a, k, i, carry) ==
    IF i > Len(a)
    THEN IF carry = 0 THEN << >> ELSE FromNat(carry)
    ELSE LET p == a[i] * k + carry
         IN  <<p % Base>> \o MulSmallFrom(a, k, i + 1, p \div Base)

MulSmall(a, k) == IF k = 0 THEN << >> ELSE MulSmallFrom(a, k, 1, 0)

Shift(a, n) == IF Len(a) = 0 THEN a ELSE [i \in 1..n |-> 0] \o a

RECURSIVE MulFrom(_, _, _)
MulFrom(a, b, j) ==
    IF j > Len(b) THEN << >>
    ELSE Add(Shift(MulSmall(a, b[j]), j - 1), MulFrom(a, b, j + 1))

Mul(a, b) == MulFrom(a, b, 1)

\* Witnessed division: q = a div b and r = a mod b
IsDivMod(a, b, q, r) == Eq(a, Add(Mul(q, b), r)) /\ Lt(r, b)

\* back to a TLC integer (only for values known to be small)
RECURSIVE ToNatFrom(_, _)
ToNatFrom(a, i) == IF i > Len(a) THEN 0 ELSE a[i] + Base * ToNatFrom(a, i + 1)
ToNat(a) == ToNatFrom(a, 1)
=====================================================================
