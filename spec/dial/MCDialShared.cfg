CONSTANTS
  Resolved <- Addrs3
  Dialers = {d1, d2}
  MaxDials = 3
  ShareEntry = TRUE
  AtomicCounter = TRUE
  NRepl = 3
SPECIFICATION FairSpec
INVARIANTS EntryIntact DialsOK RotationOK
PROPERTY RefresherStops
CHECK_DEADLOCK FALSE
