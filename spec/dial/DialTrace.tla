------------------------------ MODULE DialTrace ------------------------------
(***************************************************************************)
(* Trace specification for C18.  The real option stack (a client whose     *)
(* transport has a recording DialContext, then DNSCaching and/or ConnectTo)*)
(* performs hits; an in-process DNS server answers for the test names.     *)
(*   Reset{mode, sequential, resolved, mapped, passthru, half}             *)
(*       resolved: the "ip:port" strings a dial may go to, with family     *)
(*       mapped:   for ConnectTo runs, the replacement addresses in order  *)
(*       half:     number of attempts after which every resolved address   *)
(*                 must have been used (false-alarm probability < 1e-12)   *)
(*   Attempt{k, dialed}   the addresses handed to the recording dialer     *)
(*                        during the k-th hit (sequential runs)            *)
(*   Dial{addr}           one dial (concurrent runs)                       *)
(*   End{}                                                                 *)
(*   Refresh{running_during_attack, running_after_stop, queries_...}       *)
(*                        goroutines of the cache refresher, counted from  *)
(*                        goroutine dumps by the driver                    *)
(***************************************************************************)
EXTENDS Integers, Sequences, FiniteSets, TLC, TraceKit

CONSTANT Strict

VARIABLES hdr, n, seenA, seenB, uses, lastIdx, l
vars == <<hdr, n, seenA, seenB, uses, lastIdx, l>>

TInit == InitHighWater /\ hdr = [mode |-> ""] /\ n = 0 /\ seenA = {} /\ seenB = {} /\ uses = << >> /\ lastIdx = 0 /\ l = 1

TReset == /\ IsEv(l, "Reset")
          /\ hdr' = Ev(l) /\ n' = 0 /\ seenA' = {} /\ seenB' = {} /\ lastIdx' = 0
          /\ uses' = [i \in 1..Len(Ev(l).mapped) |-> 0]
          /\ l' = l + 1

Allowed == {hdr.resolved[i].addr : i \in 1..Len(hdr.resolved)}
FamOf(a) == hdr.resolved[CHOOSE i \in 1..Len(hdr.resolved) : hdr.resolved[i].addr = a].fam
Families == {hdr.resolved[i].fam : i \in 1..Len(hdr.resolved)}
IdxOf(a) == CHOOSE i \in 1..Len(hdr.mapped) : hdr.mapped[i] = a

Note(addrs) == IF n < hdr.half THEN seenA' = seenA \cup addrs /\ UNCHANGED seenB
               ELSE seenB' = seenB \cup addrs /\ UNCHANGED seenA

\* one hit of a sequential run
TAttempt ==
    /\ IsEv(l, "Attempt") /\ hdr.sequential
    /\ LET d == Ev(l).dialed
           ds == {d[i] : i \in 1..Len(d)}
       IN
       IF hdr.mode = "connect"
       THEN \* exactly one dial, to the next replacement in list order (or unchanged when unmapped)
            /\ Len(d) = 1
            /\ IF hdr.passthru THEN d[1] = hdr.target /\ UNCHANGED <<uses, lastIdx>>
               ELSE /\ d[1] \in {hdr.mapped[i] : i \in 1..Len(hdr.mapped)}
                    /\ lastIdx' = IdxOf(d[1])
                    /\ uses' = [uses EXCEPT ![IdxOf(d[1])] = @ + 1]
                    \* rotate evenly: after every dial no replacement is more than one use ahead of another
                    \* (any rotation order satisfies this; a skewed choice does not)
                    /\ \A i, j \in 1..Len(uses') : uses'[i] - uses'[j] <= 1
            /\ UNCHANGED <<seenA, seenB>>
       ELSE \* DNS caching: resolved addresses only, one per family the host has
            /\ ds \subseteq Allowed /\ Len(d) = Cardinality(ds)
            /\ \A a, b \in ds : FamOf(a) = FamOf(b) => a = b
            /\ {FamOf(a) : a \in ds} = Families
            /\ Note(ds) /\ UNCHANGED <<uses, lastIdx>>
    /\ n' = n + 1 /\ l' = l + 1 /\ UNCHANGED hdr

\* one dial of a concurrent run
TDial ==
    /\ IsEv(l, "Dial") /\ ~hdr.sequential
    /\ LET a == Ev(l).addr IN
       IF hdr.mode = "connect"
       THEN /\ a \in {hdr.mapped[i] : i \in 1..Len(hdr.mapped)}
            /\ uses' = [uses EXCEPT ![IdxOf(a)] = @ + 1] /\ UNCHANGED <<seenA, seenB, lastIdx>>
       ELSE /\ a \in Allowed
            /\ Note({a}) /\ UNCHANGED <<uses, lastIdx>>
    /\ n' = n + 1 /\ l' = l + 1 /\ UNCHANGED hdr

TEnd ==
    /\ IsEv(l, "End")
    /\ IF hdr.mode = "connect"
       THEN hdr.passthru \/ (\A i \in 1..Len(uses) : uses[i] \in {n \div Len(uses), (n + Len(uses) - 1) \div Len(uses)})   \* even rotation
       ELSE \* every resolved address keeps being used: in the first half of the run and again in the second
            /\ n >= 2 * hdr.half
            /\ seenA = Allowed /\ seenB = Allowed
    /\ l' = l + 1 /\ UNCHANGED <<hdr, n, seenA, seenB, uses, lastIdx>>

\* a positive ttl starts one refresh goroutine, which re-resolves while the attack runs and is gone once the attack
\* was stopped (Dial!RefresherStops); refreshing means more than the two initial queries (A and AAAA) reach the server
\* (Strict = TRUE is used for the model-drift report only: the life cycle of the refresher is documented behaviour of the
\* DNSCaching option, not part of the statement of C18, so it never gives a verdict.)
TRefresh == /\ IsEv(l, "Refresh") /\ hdr.mode = "refresh"
            /\ (Strict => /\ Ev(l).running_during_attack = 1
                          /\ Ev(l).running_after_stop = 0
                          /\ Ev(l).queries_during_attack > 2)
            /\ l' = l + 1 /\ UNCHANGED <<hdr, n, seenA, seenB, uses, lastIdx>>

TNext == TReset \/ TAttempt \/ TDial \/ TEnd \/ TRefresh
TSpec == TInit /\ [][TNext]_vars
HW == HighWater(l)
=============================================================================
