--------------------------------- MODULE Dial ---------------------------------
(***************************************************************************)
(* C18 - connections spread over all resolved and mapped addresses.        *)
(*                                                                         *)
(* Implementation-shaped model of the DNSCaching dial function and of the  *)
(* ConnectTo rotation (lib/attack.go).  The caching resolver hands out its *)
(* cache entry itself: a SHARED sequence.  A dial = take the entry (as an  *)
(* alias: ShareEntry = TRUE, the historic code; or as a private copy: the  *)
(* current code), shuffle it (any permutation, written cell by cell when   *)
(* aliased), compact it in place to the first address of each IP family    *)
(* (firstOfEachIPFamily writes through ips[:0]), dial those.               *)
(* The rotation counter of ConnectTo is incremented atomically             *)
(* (AtomicCounter = TRUE, current code) or by a read and a later write.    *)
(*                                                                         *)
(* Contract: the cache entry always stays the resolved set; every dial     *)
(* goes to resolved addresses, one per family; mapped addresses are used   *)
(* in rotation: after n dials each of k replacements was used floor(n/k)   *)
(* or ceil(n/k) times.                                                     *)
(***************************************************************************)
EXTENDS Integers, Sequences, FiniteSets, TLC

CONSTANTS Resolved,       \* the resolved addresses: a sequence of [ip, fam] (fam 4 or 6)
          Dialers, MaxDials, ShareEntry, AtomicCounter, NRepl

VARIABLES entry,    \* the cache entry (shared)
          work,     \* per dialer: the slice it is working on ("entry" alias or a private sequence)
          dpc,      \* per dialer: "idle" | "loaded" | "shuffled" | "dialing"
          dialed,   \* history: sequence of sets of addresses dialled per attempt
          ctr,      \* ConnectTo rotation counter
          tmp,      \* per dialer: value of ctr read before the write (non-atomic variant)
          used,     \* replacement index -> number of uses
          ndials,
          refresher, \* the cache-refresh goroutine started for a positive ttl: "run" | "exited"
          stopped    \* Attacker.Stop has been called (a.stopch is closed)

vars == <<entry, work, dpc, dialed, ctr, tmp, used, ndials, refresher, stopped>>

Init == /\ entry = Resolved /\ work = [d \in Dialers |-> << >>] /\ dpc = [d \in Dialers |-> "idle"]
        /\ dialed = << >> /\ ctr = 0 /\ tmp = [d \in Dialers |-> 0] /\ used = [i \in 0..(NRepl - 1) |-> 0] /\ ndials = 0
        /\ refresher = "run" /\ stopped = FALSE

Perms(s) == {p \in [1..Len(s) -> 1..Len(s)] : \A i, j \in 1..Len(s) : i # j => p[i] # p[j]}

\* ips, err := resolver.LookupHost(ctx, host)   (+ the private copy of the current code)
Load(d) == /\ dpc[d] = "idle" /\ ndials < MaxDials
           /\ work' = [work EXCEPT ![d] = entry]
           /\ dpc' = [dpc EXCEPT ![d] = "loaded"] /\ ndials' = ndials + 1
           /\ UNCHANGED <<entry, dialed, ctr, tmp, used, refresher, stopped>>

\* rng.Shuffle: some permutation of the slice; through an alias it rewrites the cache entry
Shuffle(d) == /\ dpc[d] = "loaded"
              /\ \E p \in Perms(work[d]) :
                    LET s == [i \in 1..Len(work[d]) |-> work[d][p[i]]] IN
                    /\ work' = [work EXCEPT ![d] = s]
                    /\ IF ShareEntry THEN entry' = s ELSE UNCHANGED entry
              /\ dpc' = [dpc EXCEPT ![d] = "shuffled"]
              /\ UNCHANGED <<dialed, ctr, tmp, used, ndials, refresher, stopped>>

\* firstOfEachIPFamily: each := ips[:0]; append the first address of each family - writes cells 1, 2 of the same array
RECURSIVE FirstEach(_, _, _)
FirstEach(s, i, acc) ==
    IF i > Len(s) \/ Len(acc) = 2 THEN acc
    ELSE IF Len(acc) = 0 \/ s[i].fam # acc[Len(acc)].fam THEN FirstEach(s, i + 1, Append(acc, s[i]))
    ELSE FirstEach(s, i + 1, acc)

Compact(d) == /\ dpc[d] = "shuffled"
              /\ LET each == FirstEach(work[d], 1, << >>) IN
                 /\ work' = [work EXCEPT ![d] = each]
                 /\ IF ShareEntry      \* the compaction overwrites the first cells of the shared array
                    THEN entry' = [i \in 1..Len(entry) |-> IF i <= Len(each) THEN each[i] ELSE entry[i]]
                    ELSE UNCHANGED entry
                 /\ dialed' = Append(dialed, {each[i] : i \in 1..Len(each)})
              /\ dpc' = [dpc EXCEPT ![d] = "idle"]
              /\ UNCHANGED <<ctr, tmp, used, ndials, refresher, stopped>>

\* ConnectTo: cm.n = (cm.n + 1) % len ; addr = cm.addrs[cm.n]
Rotate(d) == /\ AtomicCounter /\ dpc[d] = "idle" /\ ndials < MaxDials
             /\ ctr' = ctr + 1 /\ used' = [used EXCEPT ![(ctr + 1) % NRepl] = @ + 1] /\ ndials' = ndials + 1
             /\ UNCHANGED <<entry, work, dpc, dialed, tmp, refresher, stopped>>
RotRead(d) == /\ ~AtomicCounter /\ dpc[d] = "idle" /\ ndials < MaxDials
              /\ tmp' = [tmp EXCEPT ![d] = ctr] /\ dpc' = [dpc EXCEPT ![d] = "rot"] /\ ndials' = ndials + 1
              /\ UNCHANGED <<entry, work, dialed, ctr, used, refresher, stopped>>
RotWrite(d) == /\ dpc[d] = "rot"
               /\ ctr' = tmp[d] + 1 /\ used' = [used EXCEPT ![(tmp[d] + 1) % NRepl] = @ + 1]
               /\ dpc' = [dpc EXCEPT ![d] = "idle"]
               /\ UNCHANGED <<entry, work, dialed, tmp, ndials, refresher, stopped>>

\* case <-refresh.C: resolver.Refresh(true)  - the resolver stores a freshly resolved slice (a new array) as the entry
RefreshTick == /\ refresher = "run"
               /\ entry' = Resolved
               /\ UNCHANGED <<work, dpc, dialed, ctr, tmp, used, ndials, refresher, stopped>>
\* case <-a.stopch: return
RefreshExit == /\ refresher = "run" /\ stopped
               /\ refresher' = "exited"
               /\ UNCHANGED <<entry, work, dpc, dialed, ctr, tmp, used, ndials, stopped>>
StopAttack == /\ ~stopped /\ stopped' = TRUE
              /\ UNCHANGED <<entry, work, dpc, dialed, ctr, tmp, used, ndials, refresher>>

Next == \/ \E d \in Dialers : Load(d) \/ Shuffle(d) \/ Compact(d) \/ Rotate(d) \/ RotRead(d) \/ RotWrite(d)
        \/ RefreshTick \/ RefreshExit \/ StopAttack
Spec == Init /\ [][Next]_vars
FairSpec == Spec /\ WF_vars(RefreshExit) /\ WF_vars(StopAttack)
\* "This go-routine will be stopped when the attack is stopped"
RefresherStops == stopped ~> (refresher = "exited")

(*------------------------------ contract ------------------------------*)
AddrSet(s) == {s[i] : i \in 1..Len(s)}
\* repeated or concurrent dialling never shrinks or alters the cached address set
EntryIntact == AddrSet(entry) = AddrSet(Resolved) /\ Len(entry) = Len(Resolved)
\* every attempt goes to resolved addresses, one per family that the host has
DialsOK == \A i \in 1..Len(dialed) :
              /\ dialed[i] \subseteq AddrSet(Resolved)
              /\ \A a, b \in dialed[i] : a.fam = b.fam => a = b
              /\ {a.fam : a \in dialed[i]} = {a.fam : a \in AddrSet(Resolved)}
\* mapped addresses rotate evenly
RotationOK == (\A d \in Dialers : dpc[d] # "rot") =>
                 LET n == used[0] + (IF NRepl > 1 THEN used[1] ELSE 0) + (IF NRepl > 2 THEN used[2] ELSE 0)
                 IN \A i \in 0..(NRepl - 1) : used[i] \in {n \div NRepl, (n + NRepl - 1) \div NRepl}
=============================================================================
