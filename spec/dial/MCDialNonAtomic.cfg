CONSTANTS
  Resolved <- Addrs3
  Dialers = {d1, d2}
  MaxDials = 3
  ShareEntry = FALSE
  AtomicCounter = FALSE
  NRepl = 3
SPECIFICATION FairSpec
INVARIANTS EntryIntact DialsOK RotationOK
PROPERTY RefresherStops
CHECK_DEADLOCK FALSE
