CONSTANTS
  Resolved <- Addrs3
  Dialers = {d1, d2}
  MaxDials = 3
  ShareEntry = FALSE
  AtomicCounter = FALSE
  NRepl = 3
SPECIFICATION Spec
INVARIANTS EntryIntact DialsOK RotationOK
CHECK_DEADLOCK FALSE
