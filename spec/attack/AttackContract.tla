--------------------------- MODULE AttackContract ---------------------------
(***************************************************************************)
(* C02, C03, C04 as a monitor over the observable events of one attack.    *)
(*                                                                         *)
(* The monitor states no more than the properties: it never prescribes     *)
(* which worker runs a hit, how ticks are handed over or in which order    *)
(* simultaneous events happen.  Each event has a guard (the event is       *)
(* allowed now) and an update.  The trace specification takes Guard /\ Upd;*)
(* the design-level model (MCAttack) runs the monitor beside the           *)
(* implementation-shaped specification and checks that no guard ever       *)
(* fails.  Times are integers (virtual microseconds in traces, abstract    *)
(* instants in the model), measured from the start of the attack.          *)
(*                                                                         *)
(* Events (fields):                                                        *)
(*  Pace{t,elapsed,hits,wait,stop}   the pacer was consulted               *)
(*  Targeter{t,k,err}                k-th call of the targeter             *)
(*  Enter{t,seq,name} Exit{t,seq}    request entered / left the transport  *)
(*  Try{t}                           the consumer is about to receive      *)
(*  Recv{t,seq,ts,latency,err,name}  the consumer took a result            *)
(*  Closed{t}                        the consumer saw the channel closed   *)
(*  StopCall{id,t} StopRet{id,t,ret} a Stop call began / returned          *)
(*  Quiesce{t}                       every goroutine is durably blocked    *)
(*  End{leaked}                      the run is over                       *)
(* Clause names refer to DESIGN.md Appendix A.                             *)
(***************************************************************************)
EXTENDS Integers, Sequences, FiniteSets

CONSTANT Props      \* which properties' clauses are enforced: a subset of {"C02","C03","C04","C05"}

On(p) == p \in Props

VARIABLES
    cfg,        \* [workers, maxw (-1 = unlimited), du (0 = none), name]
    paces,      \* number of consultations of the pacer
    paceOK,     \* ... of those that did not answer stop = hits released or being released
    wake,       \* wake[k] = [lo, hi]: the k-th released hit must not start before lo and is due at hi (equal unless the pacer took time to answer)
    lastEl,     \* elapsed value of the last consultation
    pacerStop,  \* the pacer has answered stop
    targ,       \* number of targeter calls = hits started
    targErr,    \* the targeter has failed
    entered,    \* seq -> instant the request reached the transport
    exited,     \* seq -> instant the transport returned
    recvd,      \* sequence numbers taken by the consumer
    trying,     \* the consumer is in a receive whose outcome is not logged yet
    closed,     \* the consumer has seen the channel closed
    pending,    \* Stop calls that have not returned yet
    stopCalls,  \* number of Stop calls begun
    stopTrue    \* number of Stop calls that returned TRUE

cvars == <<cfg, paces, paceOK, wake, lastEl, pacerStop, targ, targErr, entered, exited,
           recvd, trying, closed, pending, stopCalls, stopTrue>>

Max(a, b) == IF a >= b THEN a ELSE b

CInit(c) ==
    /\ cfg = c
    /\ paces = 0 /\ paceOK = 0 /\ wake = << >> /\ lastEl = 0 /\ pacerStop = FALSE
    /\ targ = 0 /\ targErr = FALSE
    /\ entered = << >> /\ exited = << >>      \* functions with empty domain
    /\ recvd = {} /\ trying = FALSE /\ closed = FALSE
    /\ pending = {} /\ stopCalls = 0 /\ stopTrue = 0

Unlimited == cfg.maxw < 0
WithinCap(n) == Unlimited \/ n <= cfg.maxw
InFlight == targ - Cardinality(recvd)

\* a stop has been asked for by a Stop call or a targeter failure
StopKnown == targErr \/ stopCalls > 0
\* some reason for the attack to end exists at instant t
Reason(t) == pacerStop \/ StopKnown \/ (cfg.du > 0 /\ t > cfg.du)
\* an internal reason for a Stop to have been initiated by the attack itself
Internal(t) == pacerStop \/ targErr \/ (cfg.du > 0 /\ t > cfg.du)

(*------------------------------- Pace --------------------------------*)
\* C04 PaceArgs, Deadline, PacerStop
PaceGuard(ev) ==
    /\ (On("C02") => ~closed)
    /\ On("C04") =>
        /\ ~pacerStop                       \* never consulted again after it said stop
        /\ ev.hits = paces                  \* the true number of hits released so far
        /\ ev.elapsed = ev.t                \* measured from the attack's start
        /\ ev.elapsed >= lastEl
        /\ (cfg.du > 0 => ev.elapsed <= cfg.du)
        /\ (paceOK > 0 => ev.t >= wake[paceOK].lo)   \* it slept as long as told before asking again

PaceUpd(ev) ==
    /\ paces' = paces + 1
    /\ lastEl' = ev.elapsed
    /\ IF ev.stop
       THEN /\ pacerStop' = TRUE
            /\ UNCHANGED <<paceOK, wake>>
       ELSE /\ paceOK' = paceOK + 1
            \* A pacer that takes time to answer logs the instant it returned (rt).  Whether the wait it returned counts from
            \* the elapsed time it was given or from the moment it answered, the statement does not say: a hit must not start
            \* before the earlier of the two (lo), and is due at the later (hi) - both readings are accepted
            /\ wake' = Append(wake, [lo |-> ev.t + Max(ev.wait, 0), hi |-> (IF "rt" \in DOMAIN ev THEN ev.rt ELSE ev.t) + Max(ev.wait, 0)])
            /\ UNCHANGED pacerStop
    /\ UNCHANGED <<cfg, targ, targErr, entered, exited, recvd, trying, closed, pending, stopCalls, stopTrue>>

(*----------------------------- Targeter ------------------------------*)
\* C04 ObeyWait (a hit starts only after it was released and its wait is over),
\* C03 Cap (with the one-event slack of a receive whose Recv is not logged yet)
TargeterGuard(ev) ==
    /\ ev.k = targ + 1
    /\ (On("C04") => ev.k <= paceOK /\ ev.t >= wake[ev.k].lo)
    /\ (On("C03") => WithinCap(targ + 1 - Cardinality(recvd) - (IF trying THEN 1 ELSE 0)))
    /\ (On("C02") => ~closed)

TargeterUpd(ev) ==
    /\ targ' = targ + 1
    /\ targErr' = (targErr \/ ev.err)
    /\ UNCHANGED <<cfg, paces, paceOK, wake, lastEl, pacerStop, entered, exited, recvd, trying, closed, pending, stopCalls, stopTrue>>

(*--------------------------- Enter / Exit ----------------------------*)
EnterGuard(ev) ==
    /\ ev.seq \notin DOMAIN entered          \* (also keeps the monitor's bookkeeping sound)
    /\ ev.seq >= 0
    /\ (On("C04") => ev.seq < paceOK)
    /\ (On("C02") => /\ Cardinality(DOMAIN entered) + 1 <= targ
                      /\ ev.name = cfg.name
                      /\ ~closed)

EnterUpd(ev) ==
    /\ entered' = [s \in DOMAIN entered \cup {ev.seq} |-> IF s = ev.seq THEN ev.t ELSE entered[s]]
    /\ UNCHANGED <<cfg, paces, paceOK, wake, lastEl, pacerStop, targ, targErr, exited, recvd, trying, closed, pending, stopCalls, stopTrue>>

ExitGuard(ev) ==
    /\ ev.seq \in DOMAIN entered
    /\ ev.seq \notin DOMAIN exited
    /\ ev.t >= entered[ev.seq]

ExitUpd(ev) ==
    /\ exited' = [s \in DOMAIN exited \cup {ev.seq} |-> IF s = ev.seq THEN ev.t ELSE exited[s]]
    /\ UNCHANGED <<cfg, paces, paceOK, wake, lastEl, pacerStop, targ, targErr, entered, recvd, trying, closed, pending, stopCalls, stopTrue>>

(*------------------------------ consumer ------------------------------*)
TryGuard(ev) == ~trying /\ ~closed
TryUpd(ev) ==
    /\ trying' = TRUE
    /\ UNCHANGED <<cfg, paces, paceOK, wake, lastEl, pacerStop, targ, targErr, entered, exited, recvd, closed, pending, stopCalls, stopTrue>>

\* C02 SeqExact (no duplicate, nothing for a hit never started), C05 clauses that
\* are visible in virtual time
RecvGuard(ev) ==
    /\ trying
    /\ ev.seq \notin recvd                       \* (also keeps the monitor's bookkeeping sound)
    /\ On("C02") =>
        /\ ~closed
        /\ ev.seq >= 0 /\ ev.seq < paceOK
        /\ Cardinality(recvd) + 1 <= targ
        /\ ev.name = cfg.name
        /\ (ev.seq \in DOMAIN entered => ev.seq \in DOMAIN exited)
        /\ ev.err = (ev.seq \notin DOMAIN entered)   \* scripted transports succeed; only a targeter failure errs
    /\ On("C05") =>
        /\ ev.ts >= 0 /\ ev.latency >= 0
        /\ ev.ts + ev.latency <= ev.t
        /\ (ev.seq \in DOMAIN entered => ev.ts <= entered[ev.seq])
        /\ (ev.seq \in DOMAIN exited =>
                /\ ev.latency >= exited[ev.seq] - entered[ev.seq]
                /\ ev.ts + ev.latency >= exited[ev.seq])

RecvUpd(ev) ==
    /\ recvd' = recvd \cup {ev.seq}
    /\ trying' = FALSE
    /\ UNCHANGED <<cfg, paces, paceOK, wake, lastEl, pacerStop, targ, targErr, entered, exited, closed, pending, stopCalls, stopTrue>>

\* C02 CloseOnce / CloseAfterAll: closed once, after every started hit delivered, and for a reason
ClosedGuard(ev) ==
    /\ trying /\ ~closed
    /\ On("C02") =>
        /\ recvd = 0..(targ - 1)
        /\ Reason(ev.t)

ClosedUpd(ev) ==
    /\ closed' = TRUE
    /\ trying' = FALSE
    /\ UNCHANGED <<cfg, paces, paceOK, wake, lastEl, pacerStop, targ, targErr, entered, exited, recvd, pending, stopCalls, stopTrue>>

(*-------------------------------- Stop --------------------------------*)
StopCallGuard(ev) == ev.id \notin pending
StopCallUpd(ev) ==
    /\ pending' = pending \cup {ev.id}
    /\ stopCalls' = stopCalls + 1
    /\ UNCHANGED <<cfg, paces, paceOK, wake, lastEl, pacerStop, targ, targErr, entered, exited, recvd, trying, closed, stopTrue>>

\* C02 OneInitiator: at most one TRUE; a FALSE only if the stop was initiated before
\* this call returned - by an earlier TRUE, by a call still in progress (which must then
\* turn out TRUE or be excused itself), or by the attack itself
StopRetGuard(ev) ==
    /\ ev.id \in pending
    /\ On("C02") =>
        IF ev.ret
        THEN stopTrue = 0
        ELSE \/ stopTrue > 0
             \/ pending # {ev.id}
             \/ Internal(ev.t)
             \/ closed

StopRetUpd(ev) ==
    /\ pending' = pending \ {ev.id}
    /\ stopTrue' = stopTrue + (IF ev.ret THEN 1 ELSE 0)
    /\ UNCHANGED <<cfg, paces, paceOK, wake, lastEl, pacerStop, targ, targErr, entered, exited, recvd, trying, closed, stopCalls>>

(*------------------------------ Quiesce -------------------------------*)
\* Everything that could happen at instant t has happened.
\*  Started: at most the one hit being released has not started
\*  Cap:     exactly within the cap (C03)
\*  Eager:   a released hit whose wait is over has started unless all capacity is busy
\*           or a stop is known (C03: free capacity is used, workers grow on demand)
\*  Ends:    with a draining consumer, nothing in flight and the loop past its sleep,
\*           the channel has been closed (C02/C04: "the attack then ends")
\*  no Stop call is still in progress
QuiesceGuard(ev) ==
    /\ (On("C04") => targ <= paceOK)
    /\ On("C03") =>
        /\ paceOK - targ <= 1
        /\ WithinCap(InFlight)
        /\ (paceOK - targ = 1 /\ wake[paceOK].hi <= ev.t /\ ~StopKnown /\ ~closed
                => ~Unlimited /\ InFlight = cfg.maxw)
    /\ (On("C02") \/ On("C04")) =>
        (trying /\ InFlight = 0 /\ paces > 0 /\
         (paceOK = targ \/ (paceOK = targ + 1 /\ StopKnown /\ wake[paceOK].hi <= ev.t))
            => FALSE)         \* a consumer still waiting here means the channel was not closed
    /\ (On("C02") => pending = {})

QuiesceUpd(ev) == UNCHANGED cvars

(*-------------------------------- End ---------------------------------*)
\* C02 NoLeak
EndGuard(ev) == On("C02") => (closed /\ ev.leaked = 0 /\ pending = {})

\* The driver had to stop a run itself (Horizon), virtual time stopped advancing (Runaway) or
\* the bubble found goroutines blocked for ever (BubblePanic): the attack did not end, which
\* C02 and C04 forbid; a check of the other clauses alone lets the run go on.
AbnormalGuard(ev) == ~On("C02") /\ ~On("C04")
AbnormalUpd(ev) == UNCHANGED cvars
EndUpd(ev) == UNCHANGED cvars
=============================================================================
