CONSTANTS
  Props = {"C02", "C03", "C04", "C05"}
  WorkerChoices = {0}
  MaxWChoices = {1}
  DuChoices = {0}
  MaxCalls = 1000
  Waits = {0, 1}
  Lats = {0, 1}
  ConsDelays = {0, 1}
  Stoppers = {1, 2}
  FailAllowed = TRUE
  MaxTime = 100000
  StopAtomic = TRUE
  SplitTs = FALSE
  VirtualTime = TRUE
SPECIFICATION TSpec
CONSTRAINT HW
POSTCONDITION Accepted
CHECK_DEADLOCK FALSE
