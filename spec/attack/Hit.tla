--------------------------------- MODULE Hit ---------------------------------
(***************************************************************************)
(* C06 - each result faithfully describes its HTTP exchange.               *)
(* The hit path (lib/attack.go: hit, lib/targets.go: Target.Request) is a  *)
(* sequential function with fault points, transcribed here as a case       *)
(* analysis.  A case c fixes the target, the attacker options and what the *)
(* (fake) transport does; HitOK(c, o) says what the observed outcome o -   *)
(* the Result, the request that reached the transport, the reads and the   *)
(* Close on the response body - must satisfy.  On failed exchanges only    *)
(* the clauses the property gives for failures are asserted.               *)
(*                                                                         *)
(* Case fields                                                             *)
(*   name      attack name, "" or "n"                                      *)
(*   tgt       "ok" | "err" (the targeter fails)                           *)
(*   build     "ok" | "badmethod" | "badurl"   (Target.Request fails)      *)
(*   hdr       "none" | "case" | "repeat" | "host"   target header set     *)
(*   reqbody   bytes of request body (0 = none)                            *)
(*   chunked   ChunkedBody option                                          *)
(*   transport "response" | "error"                                        *)
(*   chain     number of redirects (status rstatus with Location) before   *)
(*             the final response; 307/308 make the client send the same   *)
(*             method and body again, 301/302/303 turn a POST into a GET   *)
(*   policy    "nofollow" | "n0" | "n1" | "n10"   Redirects option         *)
(*   status    final status code                                           *)
(*   size      bytes of the final response body                            *)
(*   fault     -1 = none, k >= 0: reading the body fails after k bytes     *)
(*   maxbody   MaxBody option (-1 = unlimited)                             *)
(***************************************************************************)
EXTENDS Integers, Sequences, FiniteSets, TLC

Min(a, b) == IF a <= b THEN a ELSE b

PolicyN(p) == IF p = "n0" THEN 0 ELSE IF p = "n1" THEN 1 ELSE 10

Base == [name |-> "n", tgt |-> "ok", build |-> "ok", hdr |-> "none", reqbody |-> 0, chunked |-> FALSE,
         transport |-> "response", chain |-> 0, policy |-> "n10", status |-> 200, size |-> 1, fault |-> -1, maxbody |-> -1, rstatus |-> 302]

Statuses == {100, 199, 200, 204, 302, 399, 400, 404, 500, 599}

\* request side: everything about the request, with a plain 200 response
RequestCases ==
    {[Base EXCEPT !.name = nm, !.hdr = h, !.reqbody = rb, !.chunked = ch] :
        nm \in {"", "n"}, h \in {"none", "case", "repeat", "host"}, rb \in {0, 3}, ch \in BOOLEAN}
\* early failures
FailCases ==
    {[Base EXCEPT !.name = nm, !.tgt = "err"] : nm \in {"", "n"}}
    \cup {[Base EXCEPT !.name = nm, !.build = b] : nm \in {"", "n"}, b \in {"badmethod", "badurl"}}
    \cup {[Base EXCEPT !.name = nm, !.transport = "error", !.reqbody = rb, !.maxbody = mb, !.policy = p] :
               nm \in {"", "n"}, rb \in {0, 3}, mb \in {-1, 0, 2, 5}, p \in {"nofollow", "n0", "n10"}}     \* (the early failures do not depend on how a response would have been treated)
\* response side: redirects, status, body size, read faults, max-body
ResponseCases ==
    {[Base EXCEPT !.chain = ch, !.policy = p, !.status = st, !.size = sz, !.fault = f, !.maxbody = mb] :
        ch \in 0..2, p \in {"nofollow", "n0", "n1", "n10"}, st \in Statuses, sz \in {0, 1, 5}, f \in {-1, 0, 2}, mb \in {-1, 0, 2, 5, 9}}

\* every kind of redirect, with and without a request body
RedirectCases ==
    {[Base EXCEPT !.chain = ch, !.rstatus = rs, !.reqbody = rb, !.policy = p, !.chunked = k] :
        ch \in {1, 2}, rs \in {301, 302, 303, 307, 308}, rb \in {0, 3}, p \in {"n10", "n1", "nofollow"}, k \in BOOLEAN}

Cases == RequestCases \cup FailCases \cup ResponseCases \cup RedirectCases

(*----------------------------- the case analysis -----------------------------*)
\* which response ends the exchange, if any
RedirectStops(c) == c.policy # "nofollow" /\ c.chain > PolicyN(c.policy)      \* "stopped after n redirects"
ShownRedirect(c) == c.policy = "nofollow" /\ c.chain > 0                       \* the first 302 itself is the result
FinalStatus(c) == IF ShownRedirect(c) THEN c.rstatus ELSE c.status
FinalSize(c) == IF ShownRedirect(c) THEN 0 ELSE c.size                         \* the fake transport's redirects have no body
FaultHits(c) == ~ShownRedirect(c) /\ c.fault >= 0 /\ c.fault < c.size           \* the read error is reached (everything is drained)

Reached(c) == c.tgt = "ok" /\ c.build = "ok"                                   \* the request reaches the transport
Completed(c) == Reached(c) /\ c.transport = "response" /\ ~RedirectStops(c) /\ ~FaultHits(c)
Captured(c) == IF c.maxbody < 0 THEN FinalSize(c) ELSE Min(c.maxbody, FinalSize(c))
Success(code) == code >= 200 /\ code < 400

\* o: the observed outcome
HitOK(c, o) ==
    \* the result carries the target's method and URL as soon as there is a target
    /\ (c.tgt = "ok" => o.method_url_ok)
    /\ o.attack_ok /\ o.seq_ok                                     \* attack name and sequence number of the result
    /\ IF Completed(c)
       THEN /\ o.code = FinalStatus(c)
            /\ o.headers_ok                                        \* the response headers
            /\ o.body_len = Captured(c) /\ o.body_prefix_ok        \* the first max-body bytes (all when unlimited)
            /\ o.bytes_in = Captured(c)
            /\ o.bytes_out = c.reqbody
            /\ (o.err_empty <=> Success(FinalStatus(c)))           \* error empty exactly for a status in [200,400)
            \* a followed 307/308 sends the body again, a followed 301/302/303 of this POST is a GET without one
            /\ (c.chain > 0 /\ ~ShownRedirect(c) => o.last_req_body_len = (IF c.rstatus \in {307, 308} THEN c.reqbody ELSE 0))
       ELSE /\ ~o.err_empty                                        \* a failed exchange always has an error
            /\ ~Success(o.code)                                    \* ... and never a success status
    \* the request that reached the transport (the first one)
    /\ (Reached(c) =>
          /\ o.req_seen
          /\ o.req_method_url_ok /\ o.req_body_len = c.reqbody /\ o.req_body_ok
          /\ o.req_header_case_ok                                  \* original letter case and multiplicity
          /\ (c.hdr = "host" => o.req_host_ok)                     \* a Host header also sets the request host
          /\ o.req_seq_hdr_ok                                      \* X-Vegeta-Seq matches the result
          /\ (IF c.name = "" THEN o.req_attack_hdr = "absent" ELSE o.req_attack_hdr = "match")
          /\ (c.chunked /\ c.reqbody > 0 => o.req_chunked))
    /\ (~Reached(c) => ~o.req_seen)
    \* every response body handed out by the transport is read to its end (or to its error) and closed
    /\ o.bodies_closed /\ o.bodies_drained

\* internal consistency of the analysis
ASSUME \A c \in Cases : Completed(c) => Captured(c) <= FinalSize(c) /\ Captured(c) >= 0
ASSUME \A c \in Cases : RedirectStops(c) => ~Completed(c)
=============================================================================
