INIT Init
NEXT Next
