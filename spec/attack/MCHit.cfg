INIT Init
NEXT Next
