------------------------------ MODULE PumpTrace ------------------------------
(* Scripted runs of the real processAttack (in-process driver of package main, op "pump"): the outcome must be
   the one Pump!Expected computes from the script. *)
EXTENDS Integers, Sequences, FiniteSets, TLC, TraceKit
CONSTANT Strict
P == INSTANCE Pump WITH MaxResults <- 0, MaxSignals <- 0, EncodeMayFail <- FALSE,
        pending <- << >>, produced <- 0, sigbuf <- 0, sent <- 0, stopped <- FALSE, closedCh <- FALSE,
        encoded <- << >>, taken <- << >>, ppc <- "", perr <- ""
VARIABLES l
TInit == InitHighWater /\ l = 1
TReset == IsEv(l, "Reset") /\ l' = l + 1
\* (implementation-shaped: with Strict = FALSE only the clause C02 itself gives - nothing received is lost or written twice
\* unless encoding failed - is enforced; the exact outcome is the model-drift report)
TPump == /\ IsEv(l, "Pump")
         /\ LET e == Ev(l)
                x == P!Expected(e.steps)
            IN IF ~Strict
               THEN (e.err = "" => \A i, j \in 1..Len(e.encoded) : i < j => e.encoded[i] < e.encoded[j])
               ELSE
               /\ e.encoded = x.enc                           \* every result received before the exit was written once, in order
               /\ e.returned = x.done                         \* it returns exactly on close, second signal or encode failure
               /\ e.err = x.err
               /\ e.stop_first = (x.sigs = 0)                 \* the first signal (and only a signal) stops the attack
         /\ l' = l + 1
\* the real attack behind the real pump (Pump!DrainsAfterOneSignal / ReturnReason on the composition): with at most one
\* signal - also one that arrives while the attack is already winding down - the pump returns normally and has written
\* the result of every hit that was started, each once
TAttackPump == /\ IsEv(l, "AttackPump")
               /\ LET e == Ev(l) IN
                  /\ e.returned
                  /\ (e.signals <= 1 =>
                        /\ e.err = ""
                        /\ e.encoded = [i \in 1..e.started |-> i - 1])
                  /\ (e.signals = 0 /\ e.duration_ms = 0 => e.started = e.hits)      \* (with a duration the attack may end before the pacer does)
               /\ l' = l + 1
TNext == TReset \/ TPump \/ TAttackPump
TSpec == TInit /\ [][TNext]_<<l>>
HW == HighWater(l)
=============================================================================
