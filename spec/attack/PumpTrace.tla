------------------------------ MODULE PumpTrace ------------------------------
(* Scripted runs of the real processAttack (in-process driver of package main, op "pump"): the outcome must be
   the one Pump!Expected computes from the script. *)
EXTENDS Integers, Sequences, FiniteSets, TLC, TraceKit
P == INSTANCE Pump WITH MaxResults <- 0, MaxSignals <- 0, EncodeMayFail <- FALSE,
        pending <- << >>, produced <- 0, sigbuf <- 0, sent <- 0, stopped <- FALSE, closedCh <- FALSE,
        encoded <- << >>, taken <- << >>, ppc <- "", perr <- ""
VARIABLES l
TInit == InitHighWater /\ l = 1
TReset == IsEv(l, "Reset") /\ l' = l + 1
TPump == /\ IsEv(l, "Pump")
         /\ LET e == Ev(l)
                x == P!Expected(e.steps)
            IN /\ e.encoded = x.enc                           \* every result received before the exit was written once, in order
               /\ e.returned = x.done                         \* it returns exactly on close, second signal or encode failure
               /\ e.err = x.err
               /\ e.stop_first = (x.sigs = 0)                 \* the first signal (and only a signal) stops the attack
         /\ l' = l + 1
TNext == TReset \/ TPump
TSpec == TInit /\ [][TNext]_<<l>>
HW == HighWater(l)
=============================================================================
