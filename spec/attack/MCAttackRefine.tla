--------------------------- MODULE MCAttackRefine ---------------------------
(* Attack.tla refines the counting abstraction WorkerPool.tla (whose invariant Apalache proves for every bound). *)
EXTENDS Attack
PoolPc == CASE apc \in {"top", "sleep"} -> "top"
            [] apc \in {"trysend", "send", "closeticks"} -> apc
            [] OTHER -> "wait"
WP == INSTANCE WorkerPool WITH maxw <- MaxW, w0 <- cfg.workers, busy <- workers - starting - idle - dead, apc <- PoolPc
Refines == WP!Init /\ [][WP!Next]_WP!vars
PoolInv == WP!IndInv
=============================================================================
