CONSTANTS
  Props = {"C02", "C03", "C04", "C05"}
  WorkerChoices = {2}
  MaxWChoices = {2}
  DuChoices = {0}
  MaxCalls = 3
  Waits = {0, 1}
  Lats = {0, 1}
  ConsDelays = {0, 1}
  Stoppers = {s1}
  FailAllowed = TRUE
  MaxTime = 5
  StopAtomic = TRUE
  SplitTs = TRUE
  VirtualTime = FALSE
SPECIFICATION Spec
INVARIANTS ContractHolds WorkersBounded BusyBounded NoDup SeqExact ResultsClosedLate AtMostOneTrue OrderAgree ReleasedLeConsulted
CHECK_DEADLOCK FALSE
