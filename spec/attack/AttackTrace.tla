--------------------------- MODULE AttackTrace ---------------------------
(***************************************************************************)
(* Trace specification: the events logged by harness/attack_test.go while  *)
(* the real Attacker runs timed scripts in synctest bubbles must be a      *)
(* behaviour of AttackContract.  Horizon, Runaway and BubblePanic events   *)
(* have no action, so a run that needed them is rejected.                  *)
(***************************************************************************)
EXTENDS Integers, Sequences, FiniteSets, TLC, TraceKit

CONSTANT Props

VARIABLES cfg, paces, paceOK, wake, lastEl, pacerStop, targ, targErr, entered, exited,
          recvd, trying, closed, pending, stopCalls, stopTrue, l

C == INSTANCE AttackContract

vars == <<cfg, paces, paceOK, wake, lastEl, pacerStop, targ, targErr, entered, exited,
          recvd, trying, closed, pending, stopCalls, stopTrue, l>>

NoCfg == [workers |-> 0, maxw |-> -1, du |-> 0, name |-> ""]

TInit == InitHighWater /\ C!CInit(NoCfg) /\ l = 1

\* a new run: every monitor variable restarts
TReset ==
    /\ IsEv(l, "Reset")
    /\ LET e == Ev(l) IN
       /\ cfg' = [workers |-> e.workers, maxw |-> e.maxw, du |-> e.du, name |-> e.name]
       /\ paces' = 0 /\ paceOK' = 0 /\ wake' = << >> /\ lastEl' = 0 /\ pacerStop' = FALSE
       /\ targ' = 0 /\ targErr' = FALSE /\ entered' = << >> /\ exited' = << >>
       /\ recvd' = {} /\ trying' = FALSE /\ closed' = FALSE
       /\ pending' = {} /\ stopCalls' = 0 /\ stopTrue' = 0
    /\ l' = l + 1

Step(name, Guard(_), Upd(_)) ==
    /\ IsEv(l, name)
    /\ Guard(Ev(l))
    /\ Upd(Ev(l))
    /\ l' = l + 1

TNext ==
    \/ TReset
    \/ Step("Pace", C!PaceGuard, C!PaceUpd)
    \/ Step("Targeter", C!TargeterGuard, C!TargeterUpd)
    \/ Step("Enter", C!EnterGuard, C!EnterUpd)
    \/ Step("Exit", C!ExitGuard, C!ExitUpd)
    \/ Step("Try", C!TryGuard, C!TryUpd)
    \/ Step("Recv", C!RecvGuard, C!RecvUpd)
    \/ Step("Closed", C!ClosedGuard, C!ClosedUpd)
    \/ Step("StopCall", C!StopCallGuard, C!StopCallUpd)
    \/ Step("StopRet", C!StopRetGuard, C!StopRetUpd)
    \/ Step("Quiesce", C!QuiesceGuard, C!QuiesceUpd)
    \/ Step("End", C!EndGuard, C!EndUpd)
    \/ Step("Horizon", C!AbnormalGuard, C!AbnormalUpd)
    \/ Step("Runaway", C!AbnormalGuard, C!AbnormalUpd)
    \/ Step("BubblePanic", C!AbnormalGuard, C!AbnormalUpd)

TSpec == TInit /\ [][TNext]_vars

HW == HighWater(l)
==========================================================================
