CONSTANT Props = {"C02", "C03", "C04", "C05"}
SPECIFICATION TSpec
CONSTRAINT HW
POSTCONDITION Accepted
CHECK_DEADLOCK FALSE
