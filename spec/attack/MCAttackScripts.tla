------------------------- MODULE MCAttackScripts -------------------------
(***************************************************************************)
(* The finite space of timed scripts that corresponds to the environment   *)
(* choices explored exhaustively in MCAttack.cfg (worker options, pacer    *)
(* answers, stop consultation, transport latencies, consumer delays, Stop  *)
(* calls, targeter failure).  TLC writes it out; the harness runs every    *)
(* script (thorough) or a seed-dependent slice (quick) on the real         *)
(* Attacker in a synctest bubble.                                          *)
(***************************************************************************)
EXTENDS Integers, Sequences, FiniteSets, TLC, Json, IOUtils, SequencesExt

Pairs(S) == {<<a, b>> : a \in S, b \in S}

StopChoices == {<< >>} \cup {<<[at |-> t, n |-> n]>> : t \in 0..2, n \in 1..2}

Scripts ==
    {[workers |-> iw, maxw |-> mw, du |-> du, waits |-> w, stop_call |-> sc, lat |-> la,
      cons |-> co, stops |-> st, fail_call |-> fc, name |-> "n", max_hits |-> 0] :
        iw \in 0..3, mw \in 1..3, du \in {0, 2}, w \in Pairs({0, 1}), sc \in 1..3,
        la \in Pairs({0, 1}), co \in Pairs({0, 1}), st \in StopChoices, fc \in 0..2}

ASSUME Export == ndJsonSerialize(IOEnv.SCRIPTS_OUT, SetToSeq(Scripts))

VARIABLE x
Init == x = 0
Next == x' = x
==========================================================================
