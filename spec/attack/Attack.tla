------------------------------- MODULE Attack -------------------------------
(***************************************************************************)
(* Implementation-shaped specification of vegeta's attack engine           *)
(* (lib/attack.go: Attacker.Attack, Stop, attack, hit), one action per     *)
(* critical section / channel operation of the code:                       *)
(*                                                                         *)
(*   attacker loop   LoopTop (duration check + Pace), Wake (time.Sleep     *)
(*                   returns), TrySend* (the non-blocking select), Send*   *)
(*                   (the blocking select), CloseTicks, WaitDone (wg.Wait  *)
(*                   + close(results)), FinalStop (deferred a.Stop())      *)
(*   workers         Park (goroutine reaches `range ticks`), TickHandoff   *)
(*                   (rendezvous on ticks), AssignSeq (the seqmu critical  *)
(*                   section: timestamp and sequence number together),     *)
(*                   CallTargeter, FailStop (hit calls Stop when the       *)
(*                   targeter failed), Enter / Exit (http round trip),     *)
(*                   Deliver (rendezvous on results), WorkerExit           *)
(*   Stop            StopCall, then either one atomic step (the code after *)
(*                   the "fix: concurrent Attacker.Stop" commit) or the    *)
(*                   historic check-then-close pair (StopAtomic = FALSE)   *)
(*   consumer        Try (about to receive), Deliver, SeeClosed            *)
(*   time            Advance: in virtual-time mode only from settled       *)
(*                   states (exactly testing/synctest), otherwise any time *)
(*                                                                         *)
(* Workers are anonymous (counter abstraction): starting / idle / ticked   *)
(* counts plus one record per hit that has a sequence number.              *)
(*                                                                         *)
(* The AttackContract monitor runs beside the model: every observable step *)
(* feeds it the event the harness would log, `ok` records that no guard    *)
(* ever failed.  TLC checks `ok` and the design invariants below.          *)
(***************************************************************************)
EXTENDS Integers, Sequences, FiniteSets, TLC

CONSTANTS
    Props,          \* properties whose contract clauses the monitor enforces
    WorkerChoices,  \* values of the Workers option explored
    MaxWChoices,    \* values of the MaxWorkers option explored (>= 1)
    DuChoices,      \* durations in instants explored, 0 = until stopped
    MaxCalls,       \* the pacer answers stop at this consultation at the latest
    Waits,          \* set of waits the pacer may answer
    Lats,           \* set of transport latencies
    ConsDelays,     \* set of consumer delays before a receive
    Stoppers,       \* set of external callers of Stop
    FailAllowed,    \* BOOLEAN: the targeter may fail
    MaxTime,        \* instants explored
    StopAtomic,     \* TRUE: Stop decides inside the Once (current code)
    SplitTs,        \* TRUE: timestamp taken in a separate step before the sequence number (sensitivity)
    VirtualTime     \* TRUE: time advances only from settled states

VARIABLES
    now,
    apc,            \* attacker loop pc
    count,          \* hits released (ticks sent)
    wakeAt,         \* end of the current time.Sleep
    workers,        \* worker goroutines spawned
    starting,       \* ... not yet parked on `range ticks`
    idle,           \* ... parked on `range ticks`
    ticked,         \* ... took a tick, about to enter the seqmu critical section
    tsTaken,        \* SplitTs only: timestamps read by ticked workers, not yet paired with a seq
    dead,           \* ... returned
    hits,           \* seq -> [ph, ts, ent, ext, err]  (ph: "targ","failstop","enter","transport","deliver","done")
    nextSeq,
    ticksClosed, resultsClosed, stopClosed,
    spc, sret,      \* per external stopper: pc and return value
    fpc,            \* pc of a Stop in progress inside FailStop / FinalStop (two-step variant): set of pending internal stoppers
    cpc, cwake,     \* consumer pc and the instant its delay ends
    delivered,      \* sequence of seq received by the consumer
    ok,             \* no contract guard has failed
    \* the AttackContract monitor
    cfg, paces, paceOK, wake, lastEl, pacerStop, targ, targErr, entered, exited,
    recvd, trying, closed, pending, stopCalls, stopTrue

C == INSTANCE AttackContract

mvars == <<cfg, paces, paceOK, wake, lastEl, pacerStop, targ, targErr, entered, exited,
           recvd, trying, closed, pending, stopCalls, stopTrue>>
ivars == <<now, apc, count, wakeAt, workers, starting, idle, ticked, tsTaken, dead, hits, nextSeq,
           ticksClosed, resultsClosed, stopClosed, spc, sret, fpc, cpc, cwake, delivered>>
vars == <<ivars, mvars, ok>>

Min(a, b) == IF a <= b THEN a ELSE b

\* the configuration of the run is part of the monitor's state
InitWorkers == cfg.workers
MaxW == cfg.maxw
Du == cfg.du

\* feed one event to the monitor
Emit(Guard(_), Upd(_), ev) == ok' = (ok /\ Guard(ev)) /\ Upd(ev)
Silent == UNCHANGED <<mvars, ok>>

Init ==
    /\ \E iw \in WorkerChoices, mw \in MaxWChoices, du \in DuChoices :
         /\ C!CInit([workers |-> iw, maxw |-> mw, du |-> du, name |-> "n"])
         /\ workers = Min(iw, mw)                  \* the initial clamp
         /\ starting = Min(iw, mw)
    /\ now = 0 /\ apc = "top" /\ count = 0 /\ wakeAt = 0
    /\ idle = 0 /\ ticked = 0 /\ tsTaken = << >> /\ dead = 0
    /\ hits = << >> /\ nextSeq = 0
    /\ ticksClosed = FALSE /\ resultsClosed = FALSE /\ stopClosed = FALSE
    /\ spc = [s \in Stoppers |-> "idle"] /\ sret = [s \in Stoppers |-> FALSE]
    /\ fpc = {}
    /\ cpc = "think" /\ cwake \in ConsDelays /\ delivered = << >>
    /\ ok = TRUE

(*----------------------------- attacker loop -----------------------------*)
\* elapsed := time.Since(began); if du > 0 && elapsed > du { return }; wait, stop := p.Pace(elapsed, count)
LoopUnch == UNCHANGED <<now, count, workers, starting, idle, ticked, tsTaken, dead, hits, nextSeq, ticksClosed,
                        resultsClosed, stopClosed, spc, sret, fpc, cpc, cwake, delivered>>

\* the duration has elapsed: return without consulting the pacer
LoopTopDeadline ==
    /\ apc = "top" /\ Du > 0 /\ now > Du
    /\ apc' = "closeticks" /\ Silent /\ UNCHANGED wakeAt
    /\ LoopUnch

\* the pacer is consulted and answers (w, stop)
LoopTopPace(stop, w) ==
    /\ apc = "top" /\ ~(Du > 0 /\ now > Du)
    /\ (paces + 1 >= MaxCalls => stop)      \* bound the run
    /\ Emit(C!PaceGuard, C!PaceUpd,
            [t |-> now, elapsed |-> now, hits |-> count, wait |-> w, stop |-> stop])
    /\ IF stop THEN apc' = "closeticks" /\ UNCHANGED wakeAt
               ELSE apc' = "sleep" /\ wakeAt' = now + w
    /\ LoopUnch

LoopTop == LoopTopDeadline \/ \E stop \in BOOLEAN, w \in Waits : LoopTopPace(stop, w)

\* time.Sleep(wait) returns
Wake ==
    /\ apc = "sleep" /\ now >= wakeAt
    /\ apc' = IF workers < MaxW THEN "trysend" ELSE "send"
    /\ Silent
    /\ UNCHANGED <<now, count, wakeAt, workers, starting, idle, ticked, tsTaken, dead, hits, nextSeq, ticksClosed,
                   resultsClosed, stopClosed, spc, sret, fpc, cpc, cwake, delivered>>

\* case ticks <- struct{}{}: a parked worker takes the tick; count++
TickHandoff ==
    /\ apc \in {"trysend", "send"} /\ idle > 0
    /\ idle' = idle - 1 /\ ticked' = ticked + 1
    /\ count' = count + 1
    /\ apc' = "top"
    /\ Silent
    /\ UNCHANGED <<now, wakeAt, workers, starting, tsTaken, dead, hits, nextSeq, ticksClosed, resultsClosed,
                   stopClosed, spc, sret, fpc, cpc, cwake, delivered>>

\* case <-a.stopch: return   (ready together with the tick case: Go picks either)
SelectStop ==
    /\ apc \in {"trysend", "send"} /\ stopClosed
    /\ apc' = "closeticks"
    /\ Silent
    /\ UNCHANGED <<now, count, wakeAt, workers, starting, idle, ticked, tsTaken, dead, hits, nextSeq, ticksClosed,
                   resultsClosed, stopClosed, spc, sret, fpc, cpc, cwake, delivered>>

\* default: no case ready - start one more worker, then block in the second select
SpawnDefault ==
    /\ apc = "trysend" /\ idle = 0 /\ ~stopClosed
    /\ workers' = workers + 1 /\ starting' = starting + 1
    /\ apc' = "send"
    /\ Silent
    /\ UNCHANGED <<now, count, wakeAt, idle, ticked, tsTaken, dead, hits, nextSeq, ticksClosed, resultsClosed,
                   stopClosed, spc, sret, fpc, cpc, cwake, delivered>>

CloseTicks ==
    /\ apc = "closeticks"
    /\ ticksClosed' = TRUE /\ apc' = "waitwg"
    /\ Silent
    /\ UNCHANGED <<now, count, wakeAt, workers, starting, idle, ticked, tsTaken, dead, hits, nextSeq,
                   resultsClosed, stopClosed, spc, sret, fpc, cpc, cwake, delivered>>

\* wg.Wait(); close(results)
WaitDone ==
    /\ apc = "waitwg" /\ dead = workers
    /\ resultsClosed' = TRUE /\ apc' = "finalstop"
    /\ Silent
    /\ UNCHANGED <<now, count, wakeAt, workers, starting, idle, ticked, tsTaken, dead, hits, nextSeq, ticksClosed,
                   stopClosed, spc, sret, fpc, cpc, cwake, delivered>>

\* the deferred a.Stop()
FinalStop ==
    /\ apc = "finalstop"
    /\ stopClosed' = TRUE /\ apc' = "done"
    /\ Silent
    /\ UNCHANGED <<now, count, wakeAt, workers, starting, idle, ticked, tsTaken, dead, hits, nextSeq, ticksClosed,
                   resultsClosed, spc, sret, fpc, cpc, cwake, delivered>>

(*-------------------------------- workers --------------------------------*)
\* a new goroutine reaches `for range ticks`
Park ==
    /\ starting > 0
    /\ starting' = starting - 1
    /\ IF ticksClosed THEN dead' = dead + 1 /\ UNCHANGED idle
                      ELSE idle' = idle + 1 /\ UNCHANGED dead
    /\ Silent
    /\ UNCHANGED <<now, apc, count, wakeAt, workers, ticked, tsTaken, hits, nextSeq, ticksClosed, resultsClosed,
                   stopClosed, spc, sret, fpc, cpc, cwake, delivered>>

WorkerExit ==
    /\ idle > 0 /\ ticksClosed
    /\ idle' = idle - 1 /\ dead' = dead + 1
    /\ Silent
    /\ UNCHANGED <<now, apc, count, wakeAt, workers, starting, ticked, tsTaken, hits, nextSeq, ticksClosed,
                   resultsClosed, stopClosed, spc, sret, fpc, cpc, cwake, delivered>>

\* SplitTs variant only: the timestamp is read before the lock is taken
ReadTs ==
    /\ SplitTs /\ ticked > Len(tsTaken)
    /\ tsTaken' = Append(tsTaken, now)
    /\ Silent
    /\ UNCHANGED <<now, apc, count, wakeAt, workers, starting, idle, ticked, dead, hits, nextSeq, ticksClosed,
                   resultsClosed, stopClosed, spc, sret, fpc, cpc, cwake, delivered>>

NewHit(ts) == [ph |-> "targ", ts |-> ts, ent |-> -1, ext |-> -1, err |-> FALSE]

\* atk.seqmu.Lock(); res.Timestamp = ...; res.Seq = atk.seq; atk.seq++; Unlock()
AssignSeq ==
    /\ ticked > 0
    /\ IF SplitTs
       THEN \E i \in 1..Len(tsTaken) :         \* any worker that already read the clock may get the lock first
              /\ hits' = [s \in DOMAIN hits \cup {nextSeq} |-> IF s = nextSeq THEN NewHit(tsTaken[i]) ELSE hits[s]]
              /\ tsTaken' = [j \in 1..(Len(tsTaken) - 1) |-> IF j < i THEN tsTaken[j] ELSE tsTaken[j + 1]]
       ELSE /\ hits' = [s \in DOMAIN hits \cup {nextSeq} |-> IF s = nextSeq THEN NewHit(now) ELSE hits[s]]
            /\ UNCHANGED tsTaken
    /\ ticked' = ticked - 1
    /\ nextSeq' = nextSeq + 1
    /\ Silent
    /\ UNCHANGED <<now, apc, count, wakeAt, workers, starting, idle, dead, ticksClosed, resultsClosed, stopClosed,
                   spc, sret, fpc, cpc, cwake, delivered>>

SetHit(s, h) == hits' = [hits EXCEPT ![s] = h]

\* err = tr(&tgt)
CallTargeterP(s, err) ==
    /\ hits[s].ph = "targ"
    /\ Emit(C!TargeterGuard, C!TargeterUpd, [t |-> now, k |-> targ + 1, err |-> err])
    /\ SetHit(s, [hits[s] EXCEPT !.ph = IF err THEN "failstop" ELSE "enter", !.err = err])
    /\ UNCHANGED <<now, apc, count, wakeAt, workers, starting, idle, ticked, tsTaken, dead, nextSeq, ticksClosed,
                   resultsClosed, stopClosed, spc, sret, fpc, cpc, cwake, delivered>>

CallTargeter(s) == \E err \in (IF FailAllowed THEN BOOLEAN ELSE {FALSE}) : CallTargeterP(s, err)

\* if err != nil { a.Stop(); return &res }
FailStop(s) ==
    /\ hits[s].ph = "failstop"
    /\ stopClosed' = TRUE
    /\ SetHit(s, [hits[s] EXCEPT !.ph = "deliver", !.ext = now])
    /\ Silent
    /\ UNCHANGED <<now, apc, count, wakeAt, workers, starting, idle, ticked, tsTaken, dead, nextSeq, ticksClosed,
                   resultsClosed, spc, sret, fpc, cpc, cwake, delivered>>

\* a.client.Do(req) reaches the transport
EnterP(s, lat) ==
    /\ hits[s].ph = "enter"
    /\ SetHit(s, [hits[s] EXCEPT !.ph = "transport", !.ent = now, !.ext = now + lat])
    /\ Emit(C!EnterGuard, C!EnterUpd, [t |-> now, seq |-> s, name |-> "n"])
    /\ UNCHANGED <<now, apc, count, wakeAt, workers, starting, idle, ticked, tsTaken, dead, nextSeq, ticksClosed,
                   resultsClosed, stopClosed, spc, sret, fpc, cpc, cwake, delivered>>

Enter(s) == \E lat \in Lats : EnterP(s, lat)

\* the transport returns; the deferred function computes the latency
Exit(s) ==
    /\ hits[s].ph = "transport" /\ now >= hits[s].ext
    /\ SetHit(s, [hits[s] EXCEPT !.ph = "deliver", !.ext = now])
    /\ Emit(C!ExitGuard, C!ExitUpd, [t |-> now, seq |-> s])
    /\ UNCHANGED <<now, apc, count, wakeAt, workers, starting, idle, ticked, tsTaken, dead, nextSeq, ticksClosed,
                   resultsClosed, stopClosed, spc, sret, fpc, cpc, cwake, delivered>>

\* results <- a.hit(tr, atk)  meets  r, ok := <-results
Deliver(s) ==
    /\ hits[s].ph = "deliver" /\ cpc = "recv"
    /\ SetHit(s, [hits[s] EXCEPT !.ph = "done"])
    /\ idle' = idle + 1                      \* the worker is back at `range ticks`
    /\ delivered' = Append(delivered, s)
    /\ cpc' = "think" /\ cwake' \in {now + d : d \in ConsDelays}
    /\ Emit(C!RecvGuard, C!RecvUpd,
            [t |-> now, seq |-> s, ts |-> hits[s].ts,
             latency |-> hits[s].ext - hits[s].ts,
             err |-> hits[s].err, name |-> "n"])
    /\ UNCHANGED <<now, apc, count, wakeAt, workers, starting, ticked, tsTaken, dead, nextSeq, ticksClosed,
                   resultsClosed, stopClosed, spc, sret, fpc>>

(*------------------------------- consumer --------------------------------*)
Try ==
    /\ cpc = "think" /\ now >= cwake
    /\ cpc' = "recv"
    /\ Emit(C!TryGuard, C!TryUpd, [t |-> now])
    /\ UNCHANGED <<now, apc, count, wakeAt, workers, starting, idle, ticked, tsTaken, dead, hits, nextSeq,
                   ticksClosed, resultsClosed, stopClosed, spc, sret, fpc, cwake, delivered>>

SeeClosed ==
    /\ cpc = "recv" /\ resultsClosed
    /\ cpc' = "end"
    /\ Emit(C!ClosedGuard, C!ClosedUpd, [t |-> now])
    /\ UNCHANGED <<now, apc, count, wakeAt, workers, starting, idle, ticked, tsTaken, dead, hits, nextSeq,
                   ticksClosed, resultsClosed, stopClosed, spc, sret, fpc, cwake, delivered>>

(*--------------------------------- Stop ----------------------------------*)
StopCall(s) ==
    /\ spc[s] = "idle" /\ apc # "done"
    /\ spc' = [spc EXCEPT ![s] = "called"]
    /\ Emit(C!StopCallGuard, C!StopCallUpd, [t |-> now, id |-> s])
    /\ UNCHANGED <<now, apc, count, wakeAt, workers, starting, idle, ticked, tsTaken, dead, hits, nextSeq,
                   ticksClosed, resultsClosed, stopClosed, sret, fpc, cpc, cwake, delivered>>

\* current code: a.stopOnce.Do(func() { close(a.stopch); stopped = true })
StopDo(s) ==
    /\ StopAtomic /\ spc[s] = "called"
    /\ stopClosed' = TRUE
    /\ spc' = [spc EXCEPT ![s] = "done"] /\ sret' = [sret EXCEPT ![s] = ~stopClosed]
    /\ Emit(C!StopRetGuard, C!StopRetUpd, [t |-> now, id |-> s, ret |-> ~stopClosed])
    /\ UNCHANGED <<now, apc, count, wakeAt, workers, starting, idle, ticked, tsTaken, dead, hits, nextSeq,
                   ticksClosed, resultsClosed, fpc, cpc, cwake, delivered>>

\* historic code: select { case <-a.stopch: return false; default: ... }
StopCheck(s) ==
    /\ ~StopAtomic /\ spc[s] = "called"
    /\ IF stopClosed
       THEN /\ spc' = [spc EXCEPT ![s] = "done"] /\ sret' = [sret EXCEPT ![s] = FALSE]
            /\ Emit(C!StopRetGuard, C!StopRetUpd, [t |-> now, id |-> s, ret |-> FALSE])
       ELSE /\ spc' = [spc EXCEPT ![s] = "checked"] /\ UNCHANGED sret /\ Silent
    /\ UNCHANGED <<now, apc, count, wakeAt, workers, starting, idle, ticked, tsTaken, dead, hits, nextSeq,
                   ticksClosed, resultsClosed, stopClosed, fpc, cpc, cwake, delivered>>

\* ... a.stopOnce.Do(func() { close(a.stopch) }); return true
StopClose(s) ==
    /\ ~StopAtomic /\ spc[s] = "checked"
    /\ stopClosed' = TRUE
    /\ spc' = [spc EXCEPT ![s] = "done"] /\ sret' = [sret EXCEPT ![s] = TRUE]
    /\ Emit(C!StopRetGuard, C!StopRetUpd, [t |-> now, id |-> s, ret |-> TRUE])
    /\ UNCHANGED <<now, apc, count, wakeAt, workers, starting, idle, ticked, tsTaken, dead, hits, nextSeq,
                   ticksClosed, resultsClosed, fpc, cpc, cwake, delivered>>

(*--------------------------------- time ----------------------------------*)
HitSeqs == DOMAIN hits

\* an action of the attack, the consumer or a Stop in progress that needs no time to pass
Immediate ==
    \/ apc = "top" \/ (apc = "sleep" /\ now >= wakeAt)
    \/ (apc \in {"trysend", "send"} /\ (idle > 0 \/ stopClosed)) \/ apc = "trysend"
    \/ apc \in {"closeticks", "finalstop"} \/ (apc = "waitwg" /\ dead = workers)
    \/ starting > 0 \/ ticked > 0 \/ (idle > 0 /\ ticksClosed)
    \/ \E s \in HitSeqs : \/ hits[s].ph \in {"targ", "failstop", "enter"}
                          \/ (hits[s].ph = "transport" /\ now >= hits[s].ext)
                          \/ (hits[s].ph = "deliver" /\ cpc = "recv")
    \/ (cpc = "think" /\ now >= cwake) \/ (cpc = "recv" /\ resultsClosed)
    \/ \E s \in Stoppers : spc[s] \in {"called", "checked"}

Advance ==
    /\ now < MaxTime
    /\ (VirtualTime => ~Immediate)
    /\ ~(apc = "done" /\ cpc = "end")
    /\ now' = now + 1
    /\ IF VirtualTime THEN Emit(C!QuiesceGuard, C!QuiesceUpd, [t |-> now]) ELSE Silent
    /\ UNCHANGED <<apc, count, wakeAt, workers, starting, idle, ticked, tsTaken, dead, hits, nextSeq, ticksClosed,
                   resultsClosed, stopClosed, spc, sret, fpc, cpc, cwake, delivered>>

Next ==
    \/ LoopTop \/ Wake \/ TickHandoff \/ SelectStop \/ SpawnDefault \/ CloseTicks \/ WaitDone \/ FinalStop
    \/ Park \/ WorkerExit \/ ReadTs \/ AssignSeq
    \/ \E s \in HitSeqs : CallTargeter(s) \/ FailStop(s) \/ Enter(s) \/ Exit(s) \/ Deliver(s)
    \/ Try \/ SeeClosed
    \/ \E s \in Stoppers : StopCall(s) \/ StopDo(s) \/ StopCheck(s) \/ StopClose(s)
    \/ Advance

Internal ==
    \/ LoopTop \/ Wake \/ TickHandoff \/ SelectStop \/ SpawnDefault \/ CloseTicks \/ WaitDone \/ FinalStop
    \/ Park \/ WorkerExit \/ ReadTs \/ AssignSeq
    \/ \E s \in HitSeqs : CallTargeter(s) \/ FailStop(s) \/ Enter(s) \/ Exit(s) \/ Deliver(s)
    \/ Try \/ SeeClosed
    \/ \E s \in Stoppers : StopDo(s) \/ StopCheck(s) \/ StopClose(s)

Spec == Init /\ [][Next]_vars

\* fairness for the liveness clause: everything internal keeps going, time passes,
\* the stop branch of the select is not ignored for ever
FairSpec == Spec /\ WF_vars(Internal) /\ WF_vars(Advance) /\ SF_vars(SelectStop)

(*------------------------------ properties -------------------------------*)
ContractHolds == ok

\* C03 design invariants
WorkersBounded == workers <= MaxW
BusyBounded == Cardinality({s \in HitSeqs : hits[s].ph # "done"}) + ticked <= workers

\* C02: what the consumer got is duplicate free, and complete once the run is over
NoDup == \A i, j \in 1..Len(delivered) : i # j => delivered[i] # delivered[j]
Finished == apc = "done" /\ cpc = "end"
SeqExact == Finished => /\ {delivered[i] : i \in 1..Len(delivered)} = 0..(nextSeq - 1)
                        /\ dead = workers /\ starting = 0 /\ idle = 0 /\ ticked = 0    \* NoLeak
                        /\ \A s \in HitSeqs : hits[s].ph = "done"
ResultsClosedLate == resultsClosed => \A s \in HitSeqs : hits[s].ph = "done"

\* C02 OneInitiator over the external callers that have returned
AtMostOneTrue == Cardinality({s \in Stoppers : spc[s] = "done" /\ sret[s]}) <= 1

\* C05: sequence order and timestamp order agree
OrderAgree == \A a, b \in HitSeqs : a < b => hits[a].ts <= hits[b].ts

\* C04: the loop never releases more than it asked the pacer for
ReleasedLeConsulted == count <= paces

\* the attack ends (under FairSpec; every run is bounded by MaxCalls, so a stop reason always comes)
Terminates == <>(apc = "done")
ConsumerSeesClose == <>(cpc = "end")
=============================================================================
