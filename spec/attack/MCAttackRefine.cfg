CONSTANTS
  Props = {"C02", "C03", "C04", "C05"}
  WorkerChoices = {0, 1, 2, 3}
  MaxWChoices = {1, 2, 3}
  DuChoices = {0, 2}
  MaxCalls = 3
  Waits = {0, 1}
  Lats = {0, 1}
  ConsDelays = {0, 1}
  Stoppers = {s1, s2}
  FailAllowed = TRUE
  MaxTime = 5
  StopAtomic = TRUE
  SplitTs = FALSE
  VirtualTime = TRUE
SPECIFICATION Spec
PROPERTY Refines
INVARIANTS PoolInv ContractHolds WorkersBounded BusyBounded NoDup SeqExact ResultsClosedLate AtMostOneTrue OrderAgree ReleasedLeConsulted
CHECK_DEADLOCK FALSE
