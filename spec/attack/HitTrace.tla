------------------------------ MODULE HitTrace ------------------------------
(* Trace specification for C06: one event Hit{c, o} per case run through the real Attacker. *)
EXTENDS Integers, Sequences, FiniteSets, TLC, TraceKit
H == INSTANCE Hit
VARIABLES l
TInit == InitHighWater /\ l = 1
TReset == IsEv(l, "Reset") /\ l' = l + 1
THit == IsEv(l, "Hit") /\ H!HitOK(Ev(l).c, Ev(l).o) /\ l' = l + 1
TNext == TReset \/ THit
TSpec == TInit /\ [][TNext]_<<l>>
HW == HighWater(l)
=============================================================================
