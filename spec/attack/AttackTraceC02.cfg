CONSTANT Props = {"C02"}
SPECIFICATION TSpec
CONSTRAINT HW
POSTCONDITION Accepted
CHECK_DEADLOCK FALSE
