----------------------------- MODULE WorkerPool -----------------------------
(***************************************************************************)
(* The worker accounting of Attacker.Attack (lib/attack.go:446-513) as a   *)
(* counting abstraction of Attack.tla, small enough to be proved for       *)
(* EVERY bound and EVERY initial worker count, not only the ones TLC       *)
(* enumerates:                                                             *)
(*   Apalache shows IndInv inductive (Init => IndInv at length 0,          *)
(*   IndInv /\ Next => IndInv' at length 1) with maxw and w0 unconstrained *)
(*   integers (maxw >= 1, w0 >= 0);                                        *)
(*   TLC shows that Attack.tla refines this module under the mapping       *)
(*   busy = workers - starting - idle - dead (MCAttackRefine.tla), so the  *)
(*   invariant carries over to the implementation-shaped model, which is   *)
(*   itself bound to the code by trace validation.                         *)
(*                                                                         *)
(* C03, first sentence:  busy <= maxw           (Bounded)                  *)
(* C03, second sentence: the loop blocks in its second select with nobody  *)
(*   to take the tick only when every permitted worker exists and is busy  *)
(*   (FreeCapacityUsed); otherwise it has just started a worker that is    *)
(*   about to take the tick.                                               *)
(*                                                                         *)
(* maxw and w0 are variables that never change (a constant could not be    *)
(* instantiated with Attack.tla's configuration, which is chosen in Init). *)
(***************************************************************************)
EXTENDS Integers

VARIABLES
    \* @type: Int;
    maxw,
    \* @type: Int;
    w0,
    \* @type: Int;
    workers,
    \* @type: Int;
    starting,
    \* @type: Int;
    idle,
    \* @type: Int;
    busy,
    \* @type: Int;
    dead,
    \* @type: Str;
    apc,
    \* @type: Bool;
    ticksClosed

vars == <<maxw, w0, workers, starting, idle, busy, dead, apc, ticksClosed>>

Min(a, b) == IF a <= b THEN a ELSE b

Init == /\ maxw \in Int /\ w0 \in Int /\ maxw >= 1 /\ w0 >= 0
        /\ workers = Min(w0, maxw) /\ starting = Min(w0, maxw)           \* the initial clamp; the workers are started, not yet parked
        /\ idle = 0 /\ busy = 0 /\ dead = 0
        /\ apc = "top" /\ ticksClosed = FALSE

\* the pacer released a hit (Pace, Sleep): try the non-blocking send only while the pool may still grow
Release == /\ apc = "top" /\ apc' = (IF workers < maxw THEN "trysend" ELSE "send")
           /\ UNCHANGED <<maxw, w0, workers, starting, idle, busy, dead, ticksClosed>>
\* pacer stop, deadline, or the stop channel seen in a select
EndLoop == /\ apc \in {"top", "trysend", "send"} /\ apc' = "closeticks"
           /\ UNCHANGED <<maxw, w0, workers, starting, idle, busy, dead, ticksClosed>>
\* a parked worker takes the tick
TickHandoff == /\ apc \in {"trysend", "send"} /\ idle > 0
               /\ idle' = idle - 1 /\ busy' = busy + 1 /\ apc' = "top"
               /\ UNCHANGED <<maxw, w0, workers, starting, dead, ticksClosed>>
\* default: nobody is ready - one more worker, then the blocking select
SpawnDefault == /\ apc = "trysend" /\ idle = 0
                /\ workers' = workers + 1 /\ starting' = starting + 1 /\ apc' = "send"
                /\ UNCHANGED <<maxw, w0, idle, busy, dead, ticksClosed>>
CloseTicks == /\ apc = "closeticks" /\ ticksClosed' = TRUE /\ apc' = "wait"
              /\ UNCHANGED <<maxw, w0, workers, starting, idle, busy, dead>>
\* a started worker reaches `range ticks`
Park == /\ starting > 0 /\ starting' = starting - 1
        /\ IF ticksClosed THEN dead' = dead + 1 /\ UNCHANGED idle ELSE idle' = idle + 1 /\ UNCHANGED dead
        /\ UNCHANGED <<maxw, w0, workers, busy, apc, ticksClosed>>
WorkerExit == /\ idle > 0 /\ ticksClosed /\ idle' = idle - 1 /\ dead' = dead + 1
              /\ UNCHANGED <<maxw, w0, workers, starting, busy, apc, ticksClosed>>
\* the consumer took the result: the worker is back at `range ticks`
Done == /\ busy > 0 /\ busy' = busy - 1 /\ idle' = idle + 1
        /\ UNCHANGED <<maxw, w0, workers, starting, dead, apc, ticksClosed>>

Next == Release \/ EndLoop \/ TickHandoff \/ SpawnDefault \/ CloseTicks \/ Park \/ WorkerExit \/ Done
Spec == Init /\ [][Next]_vars

(*------------------------------- properties -------------------------------*)
Bounded == busy <= maxw /\ workers <= maxw
FreeCapacityUsed == (apc = "send" /\ idle = 0 /\ starting = 0) => busy = maxw

TypeOK == /\ workers >= 0 /\ starting >= 0 /\ idle >= 0 /\ busy >= 0 /\ dead >= 0
          /\ apc \in {"top", "trysend", "send", "closeticks", "wait"}
          /\ ticksClosed \in BOOLEAN

\* the inductive invariant
IndInv == /\ TypeOK
          /\ maxw >= 1 /\ w0 >= 0
          /\ workers = starting + idle + busy + dead            \* every worker is in exactly one place
          /\ workers <= maxw
          /\ workers >= Min(w0, maxw)
          /\ (ticksClosed <=> apc = "wait")
          /\ (~ticksClosed => dead = 0)
          /\ (apc = "trysend" => workers < maxw)
          /\ ((apc = "send" /\ idle = 0 /\ starting = 0) => workers = maxw)

\* sensitivity (must fail): without the initial clamp the pool may start above its bound
InitNoClamp == /\ maxw \in Int /\ w0 \in Int /\ maxw >= 1 /\ w0 >= 0
               /\ workers = w0 /\ starting = w0 /\ idle = 0 /\ busy = 0 /\ dead = 0 /\ apc = "top" /\ ticksClosed = FALSE

\* IndInv as an initial-state predicate for the induction step (every variable is first given its type)
IndInit == /\ maxw \in Int /\ w0 \in Int /\ workers \in Int /\ starting \in Int /\ idle \in Int /\ busy \in Int /\ dead \in Int
           /\ apc \in {"top", "trysend", "send", "closeticks", "wait"} /\ ticksClosed \in BOOLEAN
           /\ IndInv
\* what the invariant is for
Goal == Bounded /\ FreeCapacityUsed

THEOREM IndInv => Goal
=============================================================================
