CONSTANTS
  Props = {"C02", "C03", "C04", "C05"}
  WorkerChoices = {0, 1, 2}
  MaxWChoices = {1, 2}
  DuChoices = {0, 2}
  MaxCalls = 3
  Waits = {0, 1}
  Lats = {0, 1}
  ConsDelays = {0, 1}
  Stoppers = {s1}
  FailAllowed = TRUE
  MaxTime = 12
  StopAtomic = TRUE
  SplitTs = FALSE
  VirtualTime = TRUE
SPECIFICATION FairSpec
INVARIANTS ContractHolds
PROPERTIES Terminates ConsumerSeesClose
CHECK_DEADLOCK FALSE
