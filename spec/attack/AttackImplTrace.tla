--------------------------- MODULE AttackImplTrace ---------------------------
(***************************************************************************)
(* Implementation-level trace validation (model drift, never a verdict):   *)
(* a recorded run of the real Attacker must be a behaviour of the          *)
(* implementation-shaped specification Attack.tla.  Observable actions     *)
(* consume the logged event and bind its fields (pacer answer, targeter    *)
(* outcome, sequence numbers, Stop results, the instant); the internal     *)
(* actions of the specification that log nothing - the sleep ending, the   *)
(* tick hand-off, the stop branch of the select, spawning a worker, a      *)
(* worker parking or exiting, the seqmu critical section, close(ticks),    *)
(* wg.Wait/close(results), the deferred Stop - are silent steps that leave *)
(* the cursor where it is.  Quiesce{t} is the model's Advance: it is only  *)
(* enabled when no internal action is (synctest.Wait returned).            *)
(* Times: the trace has virtual microseconds on a millisecond grid, the    *)
(* model has instants; T(e) = e.t / 1000.                                  *)
(***************************************************************************)
EXTENDS Integers, Sequences, FiniteSets, TLC, TraceKit

CONSTANTS Props, WorkerChoices, MaxWChoices, DuChoices, MaxCalls, Waits, Lats, ConsDelays, Stoppers,
          FailAllowed, MaxTime, StopAtomic, SplitTs, VirtualTime

VARIABLES now, apc, count, wakeAt, workers, starting, idle, ticked, tsTaken, dead, hits, nextSeq,
          ticksClosed, resultsClosed, stopClosed, spc, sret, fpc, cpc, cwake, delivered, ok,
          cfg, paces, paceOK, wake, lastEl, pacerStop, targ, targErr, entered, exited,
          recvd, trying, closed, pending, stopCalls, stopTrue, l,
          \* effects that have happened but whose event the acting goroutine has not logged yet (it logs after the effect):
          unRecv,     \* the sequence number the consumer has received, or -1
          unClosed,   \* the consumer has seen the channel closed
          unRet       \* per Stop caller: "none", or the value its call has returned ("T" / "F")

A == INSTANCE Attack

avars == <<now, apc, count, wakeAt, workers, starting, idle, ticked, tsTaken, dead, hits, nextSeq,
           ticksClosed, resultsClosed, stopClosed, spc, sret, fpc, cpc, cwake, delivered, ok,
           cfg, paces, paceOK, wake, lastEl, pacerStop, targ, targErr, entered, exited,
           recvd, trying, closed, pending, stopCalls, stopTrue>>
uvars == <<unRecv, unClosed, unRet>>
vars == <<avars, l, uvars>>
AllLogged == unRecv = -1 /\ ~unClosed /\ \A s \in Stoppers : unRet[s] = "none"

T(e) == e.t \div 1000
Min(a, b) == IF a <= b THEN a ELSE b

TInit == InitHighWater /\ A!Init /\ l = 1 /\ unRecv = -1 /\ unClosed = FALSE /\ unRet = [s \in Stoppers |-> "none"]

\* a new run: the initial state of Attack.tla for the logged options (the harness's consumer delays are 0 or 1 ms)
TReset ==
    /\ IsEv(l, "Reset")
    /\ LET e == Ev(l) IN
       /\ cfg' = [workers |-> e.workers, maxw |-> e.maxw, du |-> e.du \div 1000, name |-> "n"]
       /\ workers' = Min(e.workers, e.maxw) /\ starting' = Min(e.workers, e.maxw)
    /\ now' = 0 /\ apc' = "top" /\ count' = 0 /\ wakeAt' = 0 /\ idle' = 0 /\ ticked' = 0 /\ tsTaken' = << >> /\ dead' = 0
    /\ hits' = << >> /\ nextSeq' = 0 /\ ticksClosed' = FALSE /\ resultsClosed' = FALSE /\ stopClosed' = FALSE
    /\ spc' = [s \in Stoppers |-> "idle"] /\ sret' = [s \in Stoppers |-> FALSE] /\ fpc' = {}
    /\ cpc' = "think" /\ cwake' \in ConsDelays /\ delivered' = << >> /\ ok' = TRUE
    /\ paces' = 0 /\ paceOK' = 0 /\ wake' = << >> /\ lastEl' = 0 /\ pacerStop' = FALSE /\ targ' = 0 /\ targErr' = FALSE
    /\ entered' = << >> /\ exited' = << >> /\ recvd' = {} /\ trying' = FALSE /\ closed' = FALSE
    /\ pending' = {} /\ stopCalls' = 0 /\ stopTrue' = 0
    /\ unRecv' = -1 /\ unClosed' = FALSE /\ unRet' = [s \in Stoppers |-> "none"]
    /\ l' = l + 1

Consume(name) == IsEv(l, name) /\ l' = l + 1
At(e) == now = T(e)

LateUnch == UNCHANGED <<apc, count, wakeAt, workers, starting, idle, ticked, tsTaken, dead, hits, nextSeq,
                        ticksClosed, resultsClosed, stopClosed, fpc, cpc, cwake, delivered, ok,
                        cfg, paces, paceOK, wake, lastEl, pacerStop, targ, targErr, entered, exited,
                        recvd, trying, closed, pending, stopCalls, stopTrue>>
LateStopCall == /\ Consume("StopCall") /\ apc = "done"
                /\ Ev(l).id \in Stoppers /\ spc[Ev(l).id] = "idle"
                /\ spc' = [spc EXCEPT ![Ev(l).id] = "called"]
                /\ IF A!Finished THEN now' = T(Ev(l)) ELSE At(Ev(l)) /\ UNCHANGED now
                /\ UNCHANGED sret /\ LateUnch /\ UNCHANGED uvars
LateStopDo(id) == /\ apc = "done" /\ spc[id] = "called" /\ stopClosed /\ unRet[id] = "none"
                  /\ spc' = [spc EXCEPT ![id] = "done"] /\ unRet' = [unRet EXCEPT ![id] = "F"]   \* the deferred Stop of the attack came first
                  /\ UNCHANGED <<sret, now, unRecv, unClosed, l>> /\ LateUnch

Observable ==
    \/ (Consume("Pace") /\ At(Ev(l)) /\ A!LoopTopPace(Ev(l).stop, Ev(l).wait \div 1000) /\ UNCHANGED uvars)
    \/ (Consume("Targeter") /\ At(Ev(l)) /\ (\E s \in DOMAIN hits : A!CallTargeterP(s, Ev(l).err)) /\ UNCHANGED uvars)
    \/ (Consume("Enter") /\ At(Ev(l)) /\ Ev(l).seq \in DOMAIN hits /\ (\E lat \in Lats : A!EnterP(Ev(l).seq, lat)) /\ UNCHANGED uvars)
    \/ (Consume("Exit") /\ At(Ev(l)) /\ Ev(l).seq \in DOMAIN hits /\ A!Exit(Ev(l).seq) /\ UNCHANGED uvars)
    \/ (Consume("Try") /\ At(Ev(l)) /\ unRecv = -1 /\ A!Try /\ UNCHANGED uvars)
    \/ (Consume("StopCall") /\ At(Ev(l)) /\ Ev(l).id \in Stoppers /\ A!StopCall(Ev(l).id) /\ UNCHANGED uvars)
    \/ LateStopCall
    \* the logged half of the three log-after-effect events
    \/ (Consume("Recv") /\ At(Ev(l)) /\ unRecv = Ev(l).seq /\ unRecv' = -1 /\ UNCHANGED <<avars, unClosed, unRet>>)
    \/ (Consume("Closed") /\ At(Ev(l)) /\ unClosed /\ unClosed' = FALSE /\ UNCHANGED <<avars, unRecv, unRet>>)
    \/ (Consume("StopRet") /\ Ev(l).id \in Stoppers /\ unRet[Ev(l).id] = (IF Ev(l).ret THEN "T" ELSE "F")
            /\ unRet' = [unRet EXCEPT ![Ev(l).id] = "none"] /\ UNCHANGED <<avars, unRecv, unClosed>>)
    \* settled instants: everything has been logged
    \/ (Consume("Quiesce") /\ At(Ev(l)) /\ AllLogged /\ A!Advance /\ UNCHANGED uvars)
    \/ (Consume("Quiesce") /\ At(Ev(l)) /\ AllLogged /\ A!Finished /\ UNCHANGED <<avars, uvars>>)
    \/ (Consume("End") /\ AllLogged /\ A!Finished /\ Ev(l).leaked = 0 /\ UNCHANGED <<avars, uvars>>)

Silent ==
    /\ UNCHANGED l
    /\ \/ (UNCHANGED uvars /\
            (\/ A!LoopTopDeadline \/ A!Wake \/ A!TickHandoff \/ A!SelectStop \/ A!SpawnDefault
             \/ A!CloseTicks \/ A!WaitDone \/ A!FinalStop \/ A!Park \/ A!WorkerExit \/ A!AssignSeq
             \/ \E s \in DOMAIN hits : A!FailStop(s)))
       \* the effect half of the log-after-effect events
       \/ (\E s \in DOMAIN hits : A!Deliver(s) /\ unRecv = -1 /\ unRecv' = s /\ UNCHANGED <<unClosed, unRet>>)
       \/ (A!SeeClosed /\ unRecv = -1 /\ unClosed' = TRUE /\ UNCHANGED <<unRecv, unRet>>)
       \/ (\E id \in Stoppers : A!StopDo(id) /\ unRet[id] = "none"
               /\ unRet' = [unRet EXCEPT ![id] = IF sret'[id] THEN "T" ELSE "F"] /\ UNCHANGED <<unRecv, unClosed>>)
       \/ (\E id \in Stoppers : LateStopDo(id))

TNext == TReset \/ Observable \/ Silent
TSpec == TInit /\ [][TNext]_vars

\* the contract monitor that runs inside Attack.tla must stay satisfied along the matched behaviour
MonitorOK == ok
HW == HighWater(l)
=============================================================================
