--------------------------------- MODULE Pump ---------------------------------
(***************************************************************************)
(* The result pump of the attack command (attack.go: processAttack) with   *)
(* its two-stage signal handling - an anchor of C02 and the producer of    *)
(* the streams that C09 cuts.                                              *)
(*                                                                         *)
(*   for { select {                                                        *)
(*     case <-sig:   if !atk.Stop() { return nil }   // second signal      *)
(*     case r, ok := <-res:  if !ok { return nil }                         *)
(*                           observe(r); if err := enc.Encode(r) ... }}    *)
(*                                                                         *)
(* The environment delivers results (a worker blocked on the unbuffered    *)
(* results channel), signals (buffered, capacity 1) and eventually closes  *)
(* the channel once a stop was initiated and every in-flight hit has       *)
(* delivered.  Properties: every result taken from the channel is encoded  *)
(* exactly once and in order unless encoding failed; one signal stops the  *)
(* attack but the pump keeps draining until the channel is closed, so the  *)
(* output holds every result of the hits that were started; a second       *)
(* signal makes it return at once; it calls Stop at most twice.            *)
(***************************************************************************)
EXTENDS Integers, Sequences, FiniteSets, TLC

CONSTANTS MaxResults, MaxSignals, EncodeMayFail

VARIABLES pending,   \* results produced by the attack, not yet taken by the pump (a sequence; head is offered)
          produced,  \* number of results produced so far
          sigbuf,    \* signals in the buffered channel (0 or 1)
          sent,      \* signals sent so far
          stopped,   \* atk.Stop() has been called (the attack is winding down)
          closedCh,  \* the results channel is closed
          encoded,   \* what the encoder wrote
          taken,     \* results the pump received
          ppc,       \* "loop" | "returned"
          perr       \* the pump's return value: "" or "encode failed"

vars == <<pending, produced, sigbuf, sent, stopped, closedCh, encoded, taken, ppc, perr>>

Init == /\ pending = << >> /\ produced = 0 /\ sigbuf = 0 /\ sent = 0 /\ stopped = FALSE /\ closedCh = FALSE
        /\ encoded = << >> /\ taken = << >> /\ ppc = "loop" /\ perr = ""

\* the attack produces a result (while it has not been stopped, or for hits that were in flight: bounded by MaxResults)
Produce == /\ ~closedCh /\ produced < MaxResults
           /\ pending' = Append(pending, produced) /\ produced' = produced + 1
           /\ UNCHANGED <<sigbuf, sent, stopped, closedCh, encoded, taken, ppc, perr>>

\* the attack closes the channel: only after a stop (or its own end) and after every pending result was taken
CloseCh == /\ ~closedCh /\ pending = << >>
           /\ closedCh' = TRUE
           /\ UNCHANGED <<pending, produced, sigbuf, sent, stopped, encoded, taken, ppc, perr>>

Signal == /\ sent < MaxSignals /\ sigbuf = 0
          /\ sigbuf' = 1 /\ sent' = sent + 1
          /\ UNCHANGED <<pending, produced, stopped, closedCh, encoded, taken, ppc, perr>>

\* case <-sig
TakeSignal == /\ ppc = "loop" /\ sigbuf = 1
              /\ sigbuf' = 0
              /\ IF stopped THEN ppc' = "returned" /\ UNCHANGED stopped       \* Stop() returned false: exit immediately
                 ELSE stopped' = TRUE /\ UNCHANGED ppc
              /\ UNCHANGED <<pending, produced, sent, closedCh, encoded, taken, perr>>

\* case r, ok := <-res  with a result
TakeResult == /\ ppc = "loop" /\ pending # << >>
              /\ taken' = Append(taken, Head(pending)) /\ pending' = Tail(pending)
              /\ \/ encoded' = Append(encoded, Head(pending)) /\ UNCHANGED <<ppc, perr>>
                 \/ EncodeMayFail /\ ppc' = "returned" /\ perr' = "encode failed" /\ UNCHANGED encoded
              /\ UNCHANGED <<produced, sigbuf, sent, stopped, closedCh>>

\* case r, ok := <-res  with the channel closed
SeeClosed == /\ ppc = "loop" /\ pending = << >> /\ closedCh
             /\ ppc' = "returned"
             /\ UNCHANGED <<pending, produced, sigbuf, sent, stopped, closedCh, encoded, taken, perr>>

Next == Produce \/ CloseCh \/ Signal \/ TakeSignal \/ TakeResult \/ SeeClosed
Spec == Init /\ [][Next]_vars
FairSpec == Spec /\ WF_vars(TakeSignal \/ TakeResult \/ SeeClosed) /\ WF_vars(CloseCh)

(*------------------------------ properties ------------------------------*)
IsPrefix(s, t) == Len(s) <= Len(t) /\ \A i \in 1..Len(s) : s[i] = t[i]

\* everything written is what was received, in order, each once; nothing received is skipped unless encoding failed
EncodedFaithful == /\ IsPrefix(encoded, taken)
                   /\ (perr = "" => encoded = taken)
                   /\ (perr # "" => Len(taken) = Len(encoded) + 1)
\* the pump leaves only for a reason
ReturnReason == ppc = "returned" => (perr # "" \/ (closedCh /\ pending = << >>) \/ sent >= 2)
\* with at most one signal and a working encoder the output holds every result the attack produced
DrainsAfterOneSignal == (ppc = "returned" /\ perr = "" /\ sent <= 1) => (encoded = [i \in 1..produced |-> i - 1])
\* under fairness the pump returns once the channel is closed
Returns == closedCh ~> (ppc = "returned")

(*---------------- expected outcome of a scripted run (trace validation) ----------------*)
\* steps: sequence of "result" | "signal" | "close" | "encfail", executed one after the other by the driver
RECURSIVE Run(_, _, _)
Run(steps, i, st) ==
    IF i > Len(steps) \/ st.done THEN st
    ELSE LET s == steps[i] IN
      IF s = "encfail" THEN Run(steps, i + 1, [st EXCEPT !.failnext = TRUE])
      ELSE IF s = "result"
           THEN IF st.failnext THEN [st EXCEPT !.done = TRUE, !.err = "encode failed", !.seq = @ + 1]
                ELSE Run(steps, i + 1, [st EXCEPT !.enc = Append(@, st.seq), !.seq = @ + 1])
      ELSE IF s = "signal"
           THEN IF st.sigs = 1 THEN [st EXCEPT !.done = TRUE, !.sigs = 2]
                ELSE Run(steps, i + 1, [st EXCEPT !.sigs = 1])
      ELSE [st EXCEPT !.done = TRUE]       \* close

Expected(steps) == Run(steps, 1, [done |-> FALSE, err |-> "", enc |-> << >>, seq |-> 0, sigs |-> 0, failnext |-> FALSE])
=============================================================================
