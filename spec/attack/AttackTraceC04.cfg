CONSTANT Props = {"C04"}
SPECIFICATION TSpec
CONSTRAINT HW
POSTCONDITION Accepted
CHECK_DEADLOCK FALSE
