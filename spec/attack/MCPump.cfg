CONSTANTS
  MaxResults = 3
  MaxSignals = 2
  EncodeMayFail = TRUE
SPECIFICATION FairSpec
INVARIANTS EncodedFaithful ReturnReason DrainsAfterOneSignal
PROPERTY Returns
CHECK_DEADLOCK FALSE
