---------------------------- MODULE ResultsTrace ----------------------------
(***************************************************************************)
(* C05 - sequence order and timestamp order of results agree.              *)
(* The results of one real attack (real scheduler, many workers), sorted   *)
(* by sequence number by the driver, one event each:                       *)
(*   Res{seq, ts, latency, enter, exit, end}    BigNat nanoseconds since   *)
(*   an instant taken by the driver just before it called Attack           *)
(* Clauses: sequence numbers are 0,1,2,.. ; timestamps never decrease with *)
(* the sequence number; every timestamp is at or after the start and       *)
(* before the request reached the transport; latency is at least the time  *)
(* the transport took; end = timestamp + latency.                          *)
(* Design level: Attack.tla proves OrderAgree because AssignSeq is one     *)
(* action, and exhibits the inversion when the timestamp is read in a      *)
(* separate step (MCAttackSplitTs.cfg).                                    *)
(***************************************************************************)
EXTENDS Integers, Sequences, FiniteSets, TLC, TraceKit

B == INSTANCE BigNat

VARIABLES next, lastTs, l
vars == <<next, lastTs, l>>

TInit == InitHighWater /\ next = 0 /\ lastTs = << >> /\ l = 1
TReset == IsEv(l, "Reset") /\ next' = 0 /\ lastTs' = << >> /\ l' = l + 1

TRes == /\ IsEv(l, "Res")
        /\ LET e == Ev(l) IN
           /\ e.seq = next                                   \* no gap, no duplicate
           /\ B!Le(lastTs, e.ts)                             \* the smaller sequence number has the earlier (or equal) timestamp
           /\ e.started                                      \* at or after the attack's start
           /\ (e.entered => B!Le(e.ts, e.enter))             \* before the request reaches the transport
           /\ (e.entered => B!Le(B!Sub(e.exit, e.enter), e.latency))   \* at least the time the transport took
           /\ e.latency_nonneg
           /\ e.end = B!Add(e.ts, e.latency)                 \* a result's end equals timestamp plus latency
           /\ lastTs' = e.ts
        /\ next' = next + 1
        /\ l' = l + 1

\* the driver counted the results it received: all of them were listed
TEnd == IsEv(l, "End") /\ Ev(l).results = next /\ l' = l + 1 /\ UNCHANGED <<next, lastTs>>

TNext == TReset \/ TRes \/ TEnd
TSpec == TInit /\ [][TNext]_vars
HW == HighWater(l)
=============================================================================
