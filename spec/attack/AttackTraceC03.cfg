CONSTANT Props = {"C03"}
SPECIFICATION TSpec
CONSTRAINT HW
POSTCONDITION Accepted
CHECK_DEADLOCK FALSE
