CONSTANTS
  MaxBound = 7
  MaxLen = 4
  MaxAdds = 3
SPECIFICATION Spec
INVARIANTS Partition SumIsTotal
CHECK_DEADLOCK FALSE
