--------------------------- MODULE MetricsTrace ---------------------------
(***************************************************************************)
(* Trace specification for C10.  The harness adds result multisets to the  *)
(* real vegeta.Metrics in several orders with Close calls in between (and  *)
(* through the JSON reporter and the report command) and logs             *)
(*   Reset                                                                 *)
(*   Add  {code, ts, lat, bin, bout, err}      numbers as BigNat           *)
(*   Close{...every exported field...}         floats as round(x * 10^9)   *)
(* The reference accumulators are those of Metrics.tla (proved equal to    *)
(* Reference(bag) by TLC on the bounded model); every Close must show      *)
(* exactly the reference values: integers exactly, the mean latency within *)
(* 1 ns (+1e-12 relative),       float fields within 1e-9 absolute + 1e-9   *)
(* relative of the exact rational.                                         *)
(***************************************************************************)
EXTENDS Integers, Sequences, FiniteSets, TLC, TraceKit

B == INSTANCE BigNat

VARIABLES acc, derived, added, l

BPlus(a, b) == B!Add(a, b)
BMinus(a, b) == B!Sub(a, b)
BLt(a, b) == B!Lt(a, b)

M == INSTANCE Metrics WITH Plus <- BPlus, Minus <- BMinus, Lt <- BLt, Zero <- << >>, MinSentinelZero <- FALSE

vars == <<acc, derived, added, l>>

TInit == InitHighWater /\ M!MInit /\ l = 1

TReset == /\ IsEv(l, "Reset")
          /\ acc' = M!AccInit /\ derived' = M!NoDerived /\ added' = << >>
          /\ l' = l + 1

\* only the number of additions is kept as history
TAdd == /\ IsEv(l, "Add")
        /\ LET e == Ev(l)
               r == [code |-> e.code, ts |-> e.ts, lat |-> e.lat, bin |-> e.bin, bout |-> e.bout, err |-> e.err]
           IN  acc' = M!AddStep(acc, r)
        /\ added' = <<Len(added) + 1>>
        /\ l' = l + 1
        /\ UNCHANGED derived

S9 == <<0, 0, 10>>          \* 10^9
S12 == <<0, 0, 0, 1>>       \* 10^12
N(x) == B!FromNat(x)

\* x (logged as xs = round(x * 10^9)) equals a/b within 1e-9 absolute plus 1e-9 relative:
\*   10^9 * |xs*b - a*10^9| <= 10^9 * b + xs * b
AbsDiff(p, q) == IF B!Lt(p, q) THEN B!Sub(q, p) ELSE B!Sub(p, q)
Approx(xs, a, b) ==
    B!Le(B!Mul(S9, AbsDiff(B!Mul(xs, b), B!Mul(a, S9))), B!Add(B!Mul(S9, b), B!Mul(xs, b)))

CodesMatch(logged, ref) ==
    /\ Len(logged) = Cardinality(DOMAIN ref)
    /\ \A i \in 1..Len(logged) : logged[i][1] \in DOMAIN ref /\ ref[logged[i][1]] = logged[i][2]

TClose ==
    /\ IsEv(l, "Close")
    /\ LET e == Ev(l)
           n == acc.requests
           dur == B!Sub(acc.latest, acc.earliest)
           wait == B!Sub(acc.end, acc.latest)
       IN
       /\ e.requests = n
       /\ CodesMatch(e.codes, acc.codes)
       /\ {e.errors[i] : i \in 1..Len(e.errors)} = {acc.errors[i] : i \in 1..Len(acc.errors)}
       /\ Len(e.errors) = Len(acc.errors)
       /\ e.bytes_in = acc.bytesIn /\ e.bytes_out = acc.bytesOut
       /\ e.lat_total = acc.latTotal /\ e.lat_max = acc.latMax /\ e.lat_min = acc.latMin
       /\ IF n = 0
          THEN TRUE        \* an empty report: no instants, no rates
          ELSE /\ e.earliest = acc.earliest /\ e.latest = acc.latest /\ e.end = acc.end
               /\ e.duration = dur /\ e.wait = wait
               \* mean latency: total/n truncated by the code, within 1 ns
               \* (plus the 1e-12 relative error of the float64 division for totals beyond 2^53)
               /\ B!Le(B!Mul(S12, AbsDiff(B!Mul(e.lat_mean, N(n)), acc.latTotal)),
                       B!Add(B!Mul(S12, N(n)), acc.latTotal))
               /\ Approx(e.success, N(acc.success), N(n))
               /\ Approx(e.bytes_in_mean, acc.bytesIn, N(n))
               /\ Approx(e.bytes_out_mean, acc.bytesOut, N(n))
               /\ IF dur = << >>
                  THEN /\ Approx(e.rate, N(n), <<1>>)                 \* degenerate: no time between first and last request
                       /\ Approx(e.throughput, N(acc.success), <<1>>)
                  ELSE /\ Approx(e.rate, B!Mul(N(n), S9), dur)
                       /\ Approx(e.throughput, B!Mul(N(acc.success), S9), B!Add(dur, wait))
    /\ l' = l + 1
    /\ UNCHANGED <<acc, derived, added>>

\* the text report shows the same exact values
TText ==
    /\ IsEv(l, "TextReport")
    /\ LET e == Ev(l) IN
       /\ e.requests = acc.requests
       /\ e.bytes_in = acc.bytesIn /\ e.bytes_out = acc.bytesOut
       /\ CodesMatch(e.codes, acc.codes)
       /\ {e.errors[i] : i \in 1..Len(e.errors)} = {acc.errors[i] : i \in 1..Len(acc.errors)}
       /\ Len(e.errors) = Len(acc.errors)
    /\ l' = l + 1
    /\ UNCHANGED <<acc, derived, added>>

TNext == TReset \/ TAdd \/ TClose \/ TText

TSpec == TInit /\ [][TNext]_vars

HW == HighWater(l)
===========================================================================
