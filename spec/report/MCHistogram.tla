--------------------------- MODULE MCHistogram ---------------------------
(***************************************************************************)
(* Exhaustive model of C12 over small integer durations, and export of the *)
(* finite case set that the harness replays on the real Histogram.         *)
(***************************************************************************)
EXTENDS Integers, Sequences, FiniteSets, TLC, Json, IOUtils, SequencesExt

CONSTANTS MaxBound,   \* bounds are drawn from 0..MaxBound
          MaxLen,     \* at most this many bounds
          MaxAdds     \* histories of at most this many additions

IntLt(a, b) == a < b

VARIABLES bounds, counts, total, lats

H == INSTANCE Histogram WITH Lt <- IntLt, ZeroDur <- 0

Dur == 0..(MaxBound + 1)

\* all strictly increasing bound lists of length 1..MaxLen over 0..MaxBound
BoundLists ==
    {b \in UNION {[1..n -> 0..MaxBound] : n \in 1..MaxLen} : H!Increasing(b)}

\* token lists for the parser: increasing, non-empty
TokenLists == BoundLists

Init == \E b \in BoundLists : H!HInit(b)

Next == /\ Len(lats) < MaxAdds
        /\ \E lat \in Dur : H!HAdd(lat)

Spec == Init /\ [][Next]_<<bounds, counts, total, lats>>

Partition == H!Partition
SumIsTotal == H!SumIsTotal

\* constant-level facts checked once, before exploration
ASSUME ScanIsBucketOf ==
    \A b \in BoundLists : \A lat \in Dur :
        H!InDomain(lat, b) =>
            /\ H!UniqueBucket(lat, b)
            /\ H!Scan(lat, b) = H!BucketOf(lat, b)

ASSUME ParseRefines ==
    \A t \in TokenLists :
        /\ H!ParseImpl(t) = H!ParseSpec(t)
        /\ H!Increasing(H!ParseSpec(t))
        /\ H!ParseSpec(t)[1] = 0                         \* covers every latency >= 0
        /\ \A lat \in Dur : H!InDomain(lat, H!ParseSpec(t))
        /\ \A i \in 1..Len(t) : \E j \in 1..Len(H!ParseSpec(t)) : H!ParseSpec(t)[j] = t[i]

\* the case set handed to the harness: every bound list with every in-domain latency
Cases ==
    {[bounds |-> b, lat |-> lat, bucket |-> H!BucketOf(lat, b)] :
        <<b, lat>> \in {p \in BoundLists \X Dur : H!InDomain(p[2], p[1])}}

ParseCases == {[tokens |-> t, bounds |-> H!ParseSpec(t)] : t \in TokenLists}

ASSUME Export ==
    IF "CASES_OUT" \in DOMAIN IOEnv
    THEN /\ ndJsonSerialize(IOEnv.CASES_OUT, SetToSeq(Cases))
         /\ ndJsonSerialize(IOEnv.PARSE_OUT, SetToSeq(ParseCases))
    ELSE TRUE
==========================================================================
