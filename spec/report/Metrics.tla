----------------------------- MODULE Metrics -----------------------------
(***************************************************************************)
(* C10 - report metrics equal a reference computation, in any order,       *)
(* incrementally.                                                          *)
(*                                                                         *)
(* Contract layer: Reference(bag), the documented definition of every      *)
(* exact field computed directly from the bag of results.                  *)
(* Implementation-shaped layer: the running accumulators of Metrics.Add /  *)
(* LatencyMetrics.Add and the derived values of Metrics.Close              *)
(* (lib/metrics.go), with Close allowed between any two additions.         *)
(*                                                                         *)
(* Numbers are abstract (CONSTANT operators): small integers in the model, *)
(* BigNat nanoseconds / bytes in the trace specification.  A result is a   *)
(* record [code, ts, lat, bin, bout, err].                                 *)
(***************************************************************************)
EXTENDS Integers, Sequences, FiniteSets

CONSTANTS Plus(_, _), Minus(_, _), Lt(_, _), Zero,
          MinSentinelZero      \* TRUE: the historic "Min == 0 means unset" rule (sensitivity only)

Leq(a, b) == ~Lt(b, a)
MaxOf(a, b) == IF Lt(a, b) THEN b ELSE a
MinOf(a, b) == IF Lt(b, a) THEN b ELSE a
EndOf(r) == Plus(r.ts, r.lat)
IsSuccess(r) == r.code >= 200 /\ r.code < 400

(*------------------------------ contract ------------------------------*)
\* fold over a non-empty sequence of results
RECURSIVE FoldMax(_, _, _), FoldMin(_, _, _), FoldSum(_, _, _)
FoldMax(rs, F(_), i) == IF i = 1 THEN F(rs[1]) ELSE MaxOf(F(rs[i]), FoldMax(rs, F, i - 1))
FoldMin(rs, F(_), i) == IF i = 1 THEN F(rs[1]) ELSE MinOf(F(rs[i]), FoldMin(rs, F, i - 1))
FoldSum(rs, F(_), i) == IF i = 0 THEN Zero ELSE Plus(F(rs[i]), FoldSum(rs, F, i - 1))

Ts(r) == r.ts
Lat(r) == r.lat
Bin(r) == r.bin
Bout(r) == r.bout

CodesOf(rs) == {rs[i].code : i \in 1..Len(rs)}

\* the documented definitions, for a non-empty sequence rs (its order is irrelevant)
Reference(rs) ==
    LET n == Len(rs) IN
    [ requests |-> n,
      codes    |-> [c \in CodesOf(rs) |-> Cardinality({i \in 1..n : rs[i].code = c})],
      bytesIn  |-> FoldSum(rs, Bin, n),
      bytesOut |-> FoldSum(rs, Bout, n),
      latTotal |-> FoldSum(rs, Lat, n),
      latMax   |-> FoldMax(rs, Lat, n),
      latMin   |-> FoldMin(rs, Lat, n),
      earliest |-> FoldMin(rs, Ts, n),
      latest   |-> FoldMax(rs, Ts, n),
      end      |-> FoldMax(rs, EndOf, n),
      success  |-> Cardinality({i \in 1..n : IsSuccess(rs[i])}),
      errors   |-> {rs[i].err : i \in 1..n} \ {""} ]

RefDuration(rs) == Minus(Reference(rs).latest, Reference(rs).earliest)
RefWait(rs) == Minus(Reference(rs).end, Reference(rs).latest)

(*----------------------- implementation-shaped -----------------------*)
VARIABLES
    acc,        \* the accumulators of Metrics (a record, see AccInit)
    derived,    \* what the last Close computed: [duration, wait] or "none"
    added       \* history: the results added so far

mvars == <<acc, derived, added>>

AccInit ==
    [ requests |-> 0, codes |-> << >>, bytesIn |-> Zero, bytesOut |-> Zero,
      latTotal |-> Zero, latMax |-> Zero, latMin |-> Zero, latFirst |-> TRUE,
      earliest |-> Zero, latest |-> Zero, end |-> Zero,      \* Go zero times: before every timestamp of the domain
      success |-> 0, errors |-> << >> ]

NoDerived == [set |-> FALSE, duration |-> Zero, wait |-> Zero]

MInit == acc = AccInit /\ derived = NoDerived /\ added = << >>

Bump(f, c) == [k \in DOMAIN f \cup {c} |-> IF k = c THEN (IF c \in DOMAIN f THEN f[c] + 1 ELSE 1) ELSE f[k]]

InSeq(s, x) == \E i \in 1..Len(s) : s[i] = x

\* Metrics.Add / LatencyMetrics.Add
AddStep(a, r) ==
    [ requests |-> a.requests + 1,
      codes    |-> Bump(a.codes, r.code),
      bytesIn  |-> Plus(a.bytesIn, r.bin),
      bytesOut |-> Plus(a.bytesOut, r.bout),
      latTotal |-> Plus(a.latTotal, r.lat),
      latMax   |-> IF Lt(a.latMax, r.lat) THEN r.lat ELSE a.latMax,
      latMin   |-> IF MinSentinelZero
                   THEN (IF Lt(r.lat, a.latMin) \/ a.latMin = Zero THEN r.lat ELSE a.latMin)
                   ELSE (IF Lt(r.lat, a.latMin) \/ a.latFirst THEN r.lat ELSE a.latMin),
      latFirst |-> FALSE,
      \* if m.Earliest.IsZero() || m.Earliest.After(r.Timestamp)
      earliest |-> IF a.requests = 0 THEN r.ts ELSE (IF Lt(r.ts, a.earliest) THEN r.ts ELSE a.earliest),
      \* if r.Timestamp.After(m.Latest)     (the zero time is before every timestamp)
      latest   |-> IF a.requests = 0 THEN r.ts ELSE (IF Lt(a.latest, r.ts) THEN r.ts ELSE a.latest),
      end      |-> IF a.requests = 0 THEN EndOf(r) ELSE (IF Lt(a.end, EndOf(r)) THEN EndOf(r) ELSE a.end),
      success  |-> a.success + (IF IsSuccess(r) THEN 1 ELSE 0),
      errors   |-> IF r.err # "" /\ ~InSeq(a.errors, r.err) THEN Append(a.errors, r.err) ELSE a.errors ]

MAdd(r) == /\ acc' = AddStep(acc, r)
           /\ added' = Append(added, r)
           /\ UNCHANGED derived

\* Metrics.Close: derived values are recomputed from the accumulators only
MClose == /\ derived' = IF acc.requests = 0 THEN derived
                        ELSE [set |-> TRUE, duration |-> Minus(acc.latest, acc.earliest), wait |-> Minus(acc.end, acc.latest)]
          /\ UNCHANGED <<acc, added>>

(*------------------------------ properties ----------------------------*)
\* the accumulators always equal the reference over everything added so far
AccMatches ==
    added # << >> =>
        LET ref == Reference(added) IN
        /\ acc.requests = ref.requests /\ acc.codes = ref.codes
        /\ acc.bytesIn = ref.bytesIn /\ acc.bytesOut = ref.bytesOut
        /\ acc.latTotal = ref.latTotal /\ acc.latMax = ref.latMax /\ acc.latMin = ref.latMin
        /\ acc.earliest = ref.earliest /\ acc.latest = ref.latest /\ acc.end = ref.end
        /\ acc.success = ref.success
        /\ {acc.errors[i] : i \in 1..Len(acc.errors)} = ref.errors
        /\ Cardinality(ref.errors) = Len(acc.errors)

\* whatever a Close computed is the reference value over what had been added then;
\* (checked as an action property: right after every Close)
CloseMatches ==
    [][(derived' # derived /\ derived'.set) =>
          /\ derived'.duration = RefDuration(added)
          /\ derived'.wait = RefWait(added)]_mvars
==========================================================================
