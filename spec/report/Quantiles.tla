---------------------------- MODULE Quantiles ----------------------------
(***************************************************************************)
(* C11 - latency percentiles are ordered and within a bounded rank error.  *)
(*                                                                         *)
(* This is an acceptance predicate over what the real estimator reports,   *)
(* not a model of t-digest (a third-party numeric estimator whose          *)
(* arithmetic TLA+ cannot say anything about): there is no design-level    *)
(* exploration, only trace validation.  Events:                            *)
(*   Reset {n, allequal}                                                   *)
(*   Summary {min, p50, p90, p95, p99, max}        BigNat nanoseconds      *)
(*   Rank {q, v, lt, le}  percentile q (in 1/100) reported as v; lt / le = *)
(*                        number of samples < v / <= v, counted by the     *)
(*                        driver on its own sorted copy                    *)
(*   Hdr {values}         the value column of the hdrplot report, in order *)
(***************************************************************************)
EXTENDS Integers, Sequences, FiniteSets, TLC, TraceKit

B == INSTANCE BigNat

VARIABLES n, allequal, summary, l

vars == <<n, allequal, summary, l>>

NoSummary == [set |-> FALSE, min |-> << >>, max |-> << >>]

TInit == InitHighWater /\ n = 0 /\ allequal = FALSE /\ summary = NoSummary /\ l = 1

TReset == /\ IsEv(l, "Reset")
          /\ n' = Ev(l).n /\ allequal' = Ev(l).allequal /\ summary' = NoSummary
          /\ l' = l + 1

Chain(s) == \A i \in 1..(Len(s) - 1) : B!Le(s[i], s[i + 1])

\* min <= p50 <= p90 <= p95 <= p99 <= max; all equal when every sample is equal
TSummary ==
    /\ IsEv(l, "Summary")
    /\ LET e == Ev(l) IN
       /\ Chain(<<e.min, e.p50, e.p90, e.p95, e.p99, e.max>>)
       /\ (allequal => e.min = e.max /\ e.p50 = e.min /\ e.p90 = e.min /\ e.p95 = e.min /\ e.p99 = e.min)
       /\ summary' = [set |-> TRUE, min |-> e.min, max |-> e.max]
    /\ l' = l + 1
    /\ UNCHANGED <<n, allequal>>

\* v lies between two observed latencies (ranks lt and le+1 enclose it) one of whose ranks r
\* satisfies |r - q*n| <= 1 + n/100, i.e. |100 r - q n| <= 100 + n  (q in 1/100)
TRank ==
    /\ IsEv(l, "Rank")
    /\ LET e == Ev(l) IN
       /\ summary.set /\ B!Le(summary.min, e.v) /\ B!Le(e.v, summary.max)
       /\ 100 * e.lt <= e.q * n + 100 + n
       /\ 100 * (e.le + 1) >= e.q * n - 100 - n
    /\ l' = l + 1
    /\ UNCHANGED <<n, allequal, summary>>

\* the hdrplot value column never decreases as the percentile grows
\* ... and its rows are percentiles of this set: within the observed range, and all equal to the value when all latencies are
THdr == /\ IsEv(l, "Hdr")
        /\ Chain(Ev(l).values)
        /\ summary.set
        /\ \A i \in 1..Len(Ev(l).values) :
              /\ B!Le(summary.min, Ev(l).values[i]) /\ B!Le(Ev(l).values[i], summary.max)
              /\ (allequal => Ev(l).values[i] = summary.min)
        /\ l' = l + 1
        /\ UNCHANGED <<n, allequal, summary>>

TNext == TReset \/ TSummary \/ TRank \/ THdr
TSpec == TInit /\ [][TNext]_vars
HW == HighWater(l)
==========================================================================
