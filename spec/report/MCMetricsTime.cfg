CONSTANTS
  TsVals = {0, 1, 2}
  LatVals = {0, 1, 2}
  CodeVals = {200}
  ErrVals = {""}
  ByteVals = {0}
  MaxAdds = 4
  MinSentinelZero = FALSE
SPECIFICATION Spec
INVARIANT AccMatches
PROPERTY CloseMatches
CHECK_DEADLOCK FALSE
