CONSTANTS
  TsVals = {0}
  LatVals = {1}
  CodeVals = {0, 200, 399, 400}
  ErrVals = {"", "e1", "e2"}
  ByteVals = {0, 3}
  MaxAdds = 3
  MinSentinelZero = FALSE
SPECIFICATION Spec
INVARIANT AccMatches
PROPERTY CloseMatches
CHECK_DEADLOCK FALSE
