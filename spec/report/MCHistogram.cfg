CONSTANTS
  MaxBound = 5
  MaxLen = 3
  MaxAdds = 3
SPECIFICATION Spec
INVARIANTS Partition SumIsTotal
CHECK_DEADLOCK FALSE
