---------------------------- MODULE MCMetrics ----------------------------
(***************************************************************************)
(* Exhaustive model of C10 over small integers: every sequence of up to    *)
(* MaxAdds results from the given value sets, Close between any two        *)
(* additions.  Order independence follows from AccMatches (the reference   *)
(* is a function of the bag) and is also checked directly by Permuted.     *)
(***************************************************************************)
EXTENDS Integers, Sequences, FiniteSets, TLC, Json, IOUtils, SequencesExt

CONSTANTS TsVals, LatVals, CodeVals, ErrVals, ByteVals, MaxAdds, MinSentinelZero

IPlus(a, b) == a + b
IMinus(a, b) == a - b
ILt(a, b) == a < b

VARIABLES acc, derived, added

M == INSTANCE Metrics WITH Plus <- IPlus, Minus <- IMinus, Lt <- ILt, Zero <- 0

Results == [code : CodeVals, ts : TsVals, lat : LatVals, bin : ByteVals, bout : ByteVals, err : ErrVals]

Init == M!MInit
Next == \/ (Len(added) < MaxAdds /\ \E r \in Results : M!MAdd(r))
        \/ M!MClose
Spec == Init /\ [][Next]_<<acc, derived, added>>

\* (G) the grid of short histories over (timestamp, latency) explored above is handed to the harness, which replays each
\* one on the real Metrics with every placement of intermediate Close calls
GridSeqs == UNION {[1..n -> [ts : TsVals, lat : LatVals]] : n \in 1..3}
ASSUME Export == IF "CASES_OUT" \in DOMAIN IOEnv
                 THEN ndJsonSerialize(IOEnv.CASES_OUT, SetToSeq({[adds |-> g] : g \in GridSeqs}))
                 ELSE TRUE

AccMatches == M!AccMatches
CloseMatches == M!CloseMatches
==========================================================================
