--------------------------- MODULE HistTrace ---------------------------
(***************************************************************************)
(* Trace specification for C12: events logged by the harness while it      *)
(* drives the real vegeta.Histogram / Buckets.UnmarshalText / reporters    *)
(* (and the report command through the in-process driver) must be a        *)
(* behaviour of the Histogram contract.  Durations are BigNat nanoseconds. *)
(*                                                                         *)
(*  Reset {bounds}                new histogram with these bounds          *)
(*  Parse {tokens, ok, bounds}    a bucket specification was parsed        *)
(*  Add   {lat, counts, total}    one result added; Counts/Total afterwards*)
(*  Feed  {lat}                   a result written to the report command's *)
(*                                input file                               *)
(*  Render{kind, rows}            a rendering shows rows [lo, count]       *)
(*  (a Panic event has no action: the trace is rejected)                   *)
(***************************************************************************)
EXTENDS Integers, Sequences, FiniteSets, TLC, TraceKit

B == INSTANCE BigNat
BLt(a, b) == B!Lt(a, b)

VARIABLES bounds, counts, total, lats, l

H == INSTANCE Histogram WITH Lt <- BLt, ZeroDur <- << >>

vars == <<bounds, counts, total, lats, l>>

TInit == /\ InitHighWater
         /\ bounds = << >> /\ counts = << >> /\ total = 0 /\ lats = << >> /\ l = 1

TReset == /\ IsEv(l, "Reset")
          /\ LET b == Ev(l).bounds IN
             /\ Len(b) > 0 /\ H!Increasing(b)
             /\ bounds' = b
             /\ counts' = H!ZeroCounts(b)
             /\ total' = 0
             /\ lats' = << >>
          /\ l' = l + 1

\* the parser must accept a well-formed list and yield ParseSpec(tokens)
TParse == /\ IsEv(l, "Parse")
          /\ Ev(l).ok = TRUE
          /\ Ev(l).bounds = H!ParseSpec(Ev(l).tokens)
          /\ l' = l + 1
          /\ UNCHANGED <<bounds, counts, total, lats>>

\* a list whose first bound is negative (-negfirst): accepted, the bounds exactly as given - no zero bound in front
TParseNeg == /\ IsEv(l, "ParseNeg")
             /\ LET e == Ev(l) IN
                /\ e.ok = TRUE
                /\ e.abs = <<e.negfirst>> \o e.rest
                /\ Len(e.signs) = Len(e.abs) /\ e.signs[1] = -1
                /\ \A i \in 2..Len(e.signs) : e.signs[i] = (IF e.abs[i] = << >> THEN 0 ELSE 1)
             /\ l' = l + 1
             /\ UNCHANGED <<bounds, counts, total, lats>>

\* contract step: exactly the bucket [lo, next) of the latency is incremented
TAdd == /\ IsEv(l, "Add")
        /\ LET lat == Ev(l).lat IN
           /\ H!InDomain(lat, bounds)
           /\ counts' = [counts EXCEPT ![H!BucketOf(lat, bounds)] = @ + 1]
           /\ total' = total + 1
           /\ lats' = <<Len(lats) + 1>>        \* only the number of additions is kept
        /\ Ev(l).counts = counts'
        /\ (Has(Ev(l), "expect") => Ev(l).expect = H!BucketOf(Ev(l).lat, bounds))   \* TLC-exported case
        /\ Ev(l).total = total'
        /\ H!SumTo(counts', Len(bounds)) = total'
        /\ l' = l + 1
        /\ UNCHANGED bounds

\* a result written to the input file of the report command (nothing observable yet)
TFeed == /\ IsEv(l, "Feed")
         /\ H!InDomain(Ev(l).lat, bounds)
         /\ counts' = [counts EXCEPT ![H!BucketOf(Ev(l).lat, bounds)] = @ + 1]
         /\ total' = total + 1
         /\ lats' = <<Len(lats) + 1>>
         /\ l' = l + 1
         /\ UNCHANGED bounds

\* every rendering lists every bucket with its lower bound and its count
TRender == /\ IsEv(l, "Render")
           /\ Ev(l).rows = [i \in 1..Len(bounds) |-> <<bounds[i], counts[i]>>]
           \* the text rendering also names each bucket's upper bound: the next bound, the last bucket is open
           /\ (Has(Ev(l), "his") =>
                  Ev(l).his = [i \in 1..Len(bounds) |-> IF i = Len(bounds) THEN <<-1>> ELSE bounds[i + 1]])
           /\ l' = l + 1
           /\ UNCHANGED <<bounds, counts, total, lats>>

TNext == TReset \/ TParse \/ TParseNeg \/ TAdd \/ TFeed \/ TRender

TSpec == TInit /\ [][TNext]_vars

HW == HighWater(l)
=========================================================================
