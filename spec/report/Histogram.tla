--------------------------- MODULE Histogram ---------------------------
(***************************************************************************)
(* C12 - histogram buckets partition the results.                          *)
(*                                                                         *)
(* Contract layer: BucketOf / ParseSpec / the counts a histogram must      *)
(* show after a bag of latencies.  Implementation-shaped layer: the        *)
(* linear scan of Histogram.Add (lib/histogram.go) and the token loop of   *)
(* Buckets.UnmarshalText with its implicit zero bound.                     *)
(*                                                                         *)
(* Durations are abstract: the module is parameterised by a strict order   *)
(* Lt and the zero duration, so that the model checker instantiates it     *)
(* with small integers and the trace specification with BigNat             *)
(* nanoseconds.                                                            *)
(***************************************************************************)
EXTENDS Integers, Sequences, FiniteSets

CONSTANTS Lt(_, _),     \* strict total order on durations
          ZeroDur       \* the zero duration

Leq(a, b) == ~Lt(b, a)

Increasing(b) == \A i \in 1..(Len(b) - 1) : Lt(b[i], b[i + 1])

(*------------------------------ contract ------------------------------*)
\* bucket i is [b[i], b[i+1]) and the last bucket is unbounded above
InBucket(lat, b, i) == /\ Leq(b[i], lat)
                       /\ (i = Len(b) \/ Lt(lat, b[i + 1]))

InDomain(lat, b) == Len(b) > 0 /\ Leq(b[1], lat)

BucketOf(lat, b) == CHOOSE i \in 1..Len(b) : InBucket(lat, b, i)

\* the counts a histogram over bounds b must show for the latencies in lats
ContractCounts(b, lats) ==
    [i \in 1..Len(b) |->
        Cardinality({k \in 1..Len(lats) : InBucket(lats[k], b, i)})]

\* command-line bucket list: the given bounds, preceded by a zero bound
\* when the first given bound is positive
ParseSpec(tokens) ==
    IF Lt(ZeroDur, tokens[1]) THEN <<ZeroDur>> \o tokens ELSE tokens

(*----------------------- implementation-shaped -----------------------*)
\* Histogram.Add: for i := 0; i < len-1; i++ { if lat >= b[i] && lat < b[i+1] break }
RECURSIVE ScanFrom(_, _, _)
ScanFrom(lat, b, i) ==
    IF i >= Len(b) THEN i
    ELSE IF Leq(b[i], lat) /\ Lt(lat, b[i + 1]) THEN i
    ELSE ScanFrom(lat, b, i + 1)

Scan(lat, b) == ScanFrom(lat, b, 1)

\* Buckets.UnmarshalText: append each token, inserting 0 before a positive first one
RECURSIVE ParseLoop(_, _, _)
ParseLoop(tokens, i, acc) ==
    IF i > Len(tokens) THEN acc
    ELSE LET d    == tokens[i]
             acc1 == IF i = 1 /\ Lt(ZeroDur, d) THEN Append(acc, ZeroDur) ELSE acc
         IN  ParseLoop(tokens, i + 1, Append(acc1, d))

ParseImpl(tokens) == ParseLoop(tokens, 1, << >>)

(*--------------------------- state machine ---------------------------*)
VARIABLES bounds,   \* the bucket bounds of the histogram
          counts,   \* Counts as the implementation keeps them
          total,    \* Total
          lats      \* history: every latency added so far

hvars == <<bounds, counts, total, lats>>

ZeroCounts(b) == [i \in 1..Len(b) |-> 0]

HInit(b) == /\ bounds = b
            /\ counts = ZeroCounts(b)
            /\ total = 0
            /\ lats = << >>

HAdd(lat) == /\ InDomain(lat, bounds)
             /\ counts' = [counts EXCEPT ![Scan(lat, bounds)] = @ + 1]
             /\ total' = total + 1
             /\ lats' = Append(lats, lat)
             /\ UNCHANGED bounds

RECURSIVE SumTo(_, _)
SumTo(c, i) == IF i = 0 THEN 0 ELSE c[i] + SumTo(c, i - 1)

(*------------------------------ properties ----------------------------*)
\* every in-domain latency has exactly one bucket
UniqueBucket(lat, b) ==
    Cardinality({i \in 1..Len(b) : InBucket(lat, b, i)}) = 1

Partition == counts = ContractCounts(bounds, lats)
SumIsTotal == SumTo(counts, Len(bounds)) = total /\ total = Len(lats)
=========================================================================
