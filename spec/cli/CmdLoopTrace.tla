---------------------------- MODULE CmdLoopTrace ----------------------------
(* Runs of the real encode and plot commands over a slow pipe, with and without an interrupt:
   Reset{kind, n, signalled}, Out{ids, err}: ids[i] = position in the input of the i-th record of the output (0 = not a record of the input). *)
EXTENDS Integers, Sequences, FiniteSets, TLC, TraceKit
VARIABLES l, c
C == INSTANCE CmdLoop WITH N <- 0, Kind <- "encode", SigAfterDecode <- FALSE, avail <- 0, closed <- FALSE, decoded <- 0, sig <- FALSE,
        signalled <- FALSE, pc <- "done", written <- 0, held <- FALSE
TInit == l = 1 /\ c = [n |-> 0, signalled |-> FALSE] /\ InitHighWater
TReset == IsEv(l, "Reset") /\ c' = Ev(l) /\ l' = l + 1
TOut == /\ IsEv(l, "Out") /\ Ev(l).err = "" /\ C!ContractOK(Ev(l).ids, c.n, c.signalled)
        /\ l' = l + 1 /\ UNCHANGED c
TNext == TReset \/ TOut
TSpec == TInit /\ [][TNext]_<<l, c>>
HW == HighWater(l)
=============================================================================
