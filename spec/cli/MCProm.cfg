CONSTANTS
  MaxObs = 3
  IncFail = TRUE
SPECIFICATION Spec
INVARIANT Matches
CHECK_DEADLOCK FALSE
