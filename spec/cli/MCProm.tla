------------------------------- MODULE MCProm -------------------------------
EXTENDS Integers, Sequences, FiniteSets, TLC
CONSTANTS MaxObs, IncFail
IPlus(a, b) == a + b
ILeq(a, b) == a <= b
VARIABLES base, fails, history
P == INSTANCE Prom WITH Plus <- IPlus, Leq <- ILeq, Zero <- 0, Bounds <- <<1, 3>>
Results == [method : {"GET", "POST"}, url : {"u"}, code : {200, 500}, err : {"", "e"}, bin : {0, 2}, bout : {1}, lat : {0, 1, 2, 4}]
Init == P!PInit
Next == Len(history) < MaxObs /\ \E r \in Results : P!PObserve(r)
Spec == Init /\ [][Next]_<<base, fails, history>>
Matches == P!Matches
=============================================================================
