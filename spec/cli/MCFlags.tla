------------------------------- MODULE MCFlags -------------------------------
EXTENDS Flags, Json, IOUtils, SequencesExt
ASSUME Export ==
    IF "CASES_OUT" \in DOMAIN IOEnv THEN ndJsonSerialize(IOEnv.CASES_OUT, SetToSeq(RateCases)) ELSE TRUE
\* sanity of the case set: every shape is represented, unlimited cases exist in both spellings
ASSUME {c.shape : c \in RateCases} = RateShapes \cup BadShapes
ASSUME \E c \in RateCases : c.shape = "inf"
ASSUME \E c \in RateCases : c.shape = "n" /\ c.n = 0
VARIABLE x
Init == x = 0
Next == x' = x
=============================================================================
