CONSTANTS N = 3  MaxTicks = 2  Windowed = TRUE
SPECIFICATION Spec
INVARIANTS TypeOK Monotone
CHECK_DEADLOCK FALSE
