INIT Init
NEXT Next
