CONSTANTS N = 4  Kind = "encode"  SigAfterDecode = FALSE
SPECIFICATION FairSpec
INVARIANTS TypeOK NoLoss DoneWritesAll WholeUnlessInterrupted
PROPERTY Terminates
CHECK_DEADLOCK FALSE
