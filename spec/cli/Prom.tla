-------------------------------- MODULE Prom --------------------------------
(***************************************************************************)
(* C20 - Prometheus metrics equal the sums over observed results.          *)
(* State per label set (method, url, status): bytes in/out counters, the   *)
(* latency histogram (count, sum, cumulative buckets); per (method, url,   *)
(* status, message): the failure counter.  Observe(r) is the only action.  *)
(* Numbers are abstract (Plus / Leq), so that the model uses small         *)
(* integers and the trace specification BigNat.                            *)
(* IncFail = FALSE reproduces the historic code that created the failure   *)
(* counter without incrementing it (sensitivity).                          *)
(***************************************************************************)
EXTENDS Integers, Sequences, FiniteSets

CONSTANTS Plus(_, _), Leq(_, _), Zero, Bounds, IncFail
\* Bounds: sequence of the histogram's upper bounds (in the unit of the latencies)

VARIABLES base,     \* function: <<method, url, code>> -> [bin, bout, n, sum, buckets]
          fails,    \* function: <<method, url, code, message>> -> count
          history   \* results observed so far (model only)

pvars == <<base, fails, history>>

PInit == base = << >> /\ fails = << >> /\ history = << >>

ZeroBase == [bin |-> Zero, bout |-> Zero, n |-> 0, sum |-> Zero, buckets |-> [i \in 1..Len(Bounds) |-> 0]]

Key(r) == <<r.method, r.url, r.code>>
FKey(r) == <<r.method, r.url, r.code, r.err>>

Upd(f, k, v) == [x \in DOMAIN f \cup {k} |-> IF x = k THEN v ELSE f[x]]
Get(f, k, d) == IF k \in DOMAIN f THEN f[k] ELSE d

ObserveStep(b, fl, r) ==
    LET old == Get(b, Key(r), ZeroBase)
        new == [bin |-> Plus(old.bin, r.bin), bout |-> Plus(old.bout, r.bout), n |-> old.n + 1,
                sum |-> Plus(old.sum, r.lat),
                buckets |-> [i \in 1..Len(Bounds) |-> old.buckets[i] + (IF Leq(r.lat, Bounds[i]) THEN 1 ELSE 0)]]
    IN [base |-> Upd(b, Key(r), new),
        fails |-> IF r.err # ""
                  THEN Upd(fl, FKey(r), Get(fl, FKey(r), 0) + (IF IncFail THEN 1 ELSE 0))
                  ELSE fl]

PObserve(r) == /\ base' = ObserveStep(base, fails, r).base
               /\ fails' = ObserveStep(base, fails, r).fails
               /\ history' = Append(history, r)

(*------------------------------ contract ------------------------------*)
Sel(h, k) == SelectSeq(h, LAMBDA r : Key(r) = k)
RECURSIVE SumOf(_, _)
SumOf(s, f) == IF s = << >> THEN Zero ELSE Plus(Head(s)[f], SumOf(Tail(s), f))     \* f: a field name

Matches ==
    /\ DOMAIN base = {Key(history[i]) : i \in 1..Len(history)}
    /\ \A k \in DOMAIN base :
         LET mine == Sel(history, k) IN
         /\ base[k].n = Len(mine)
         /\ base[k].bin = SumOf(mine, "bin")
         /\ base[k].bout = SumOf(mine, "bout")
         /\ base[k].sum = SumOf(mine, "lat")
         /\ \A i \in 1..Len(Bounds) :
              base[k].buckets[i] = Cardinality({j \in 1..Len(mine) : Leq(mine[j].lat, Bounds[i])})
    /\ DOMAIN fails = {FKey(history[i]) : i \in {j \in 1..Len(history) : history[j].err # ""}}
    /\ \A fk \in DOMAIN fails :
         fails[fk] = Cardinality({i \in 1..Len(history) : history[i].err # "" /\ FKey(history[i]) = fk})
=============================================================================
