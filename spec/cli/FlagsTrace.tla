----------------------------- MODULE FlagsTrace -----------------------------
(***************************************************************************)
(* Trace specification for C19: one event per flag case, carrying the      *)
(* token structure (c) and what the real flag.Value stored (o).            *)
(***************************************************************************)
EXTENDS Integers, Sequences, FiniteSets, TLC, TraceKit

F == INSTANCE Flags

VARIABLES l
vars == <<l>>
TInit == InitHighWater /\ l = 1

TReset == IsEv(l, "Reset") /\ l' = l + 1

TRate == /\ IsEv(l, "Rate")
         /\ F!RateStoredOK(Ev(l).c, Ev(l).o)
         /\ l' = l + 1

HdrFn(list) == [key \in {list[i].key : i \in 1..Len(list)} |-> list[CHOOSE i \in 1..Len(list) : list[i].key = key].values]

\* repeated -header flags accumulate, key case preserved
THeader == /\ IsEv(l, "Header")
           /\ \A i \in 1..Len(Ev(l).errs) : Ev(l).errs[i] = ""
           /\ HdrFn(Ev(l).stored) = F!HeaderExpected(Ev(l).toks)
           /\ Len(Ev(l).stored) = Cardinality({Ev(l).toks[i].key : i \in 1..Len(Ev(l).toks)})
           /\ l' = l + 1

\* malformed header lines are rejected and store nothing
TBadHeader == /\ IsEv(l, "BadHeader")
              /\ Ev(l).err # "" /\ Ev(l).stored = << >>
              /\ l' = l + 1

\* -max-body: -1, or n units of 1024^k bytes
TMaxBody == /\ IsEv(l, "MaxBody")
            /\ LET e == Ev(l) IN
               IF e.minus1 THEN e.err = "" /\ e.stored = "-1"
               ELSE e.err = "" /\ e.div = e.n /\ e.mod = 0
            /\ l' = l + 1

TConnectTo == /\ IsEv(l, "ConnectTo")
              /\ \A i \in 1..Len(Ev(l).errs) : Ev(l).errs[i] = ""
              /\ HdrFn(Ev(l).stored) = [s \in DOMAIN F!ConnectExpected(Ev(l).tups) |-> F!ConnectExpected(Ev(l).tups)[s]]
              /\ l' = l + 1

\* -dns-ttl: -1 disables, 0 caches for ever, a duration is itself
TDNSTTL == /\ IsEv(l, "DNSTTL")
           /\ LET e == Ev(l) IN
              /\ e.err = ""
              /\ IF e.kind = "minus1" THEN e.stored = "-1"
                 ELSE IF e.kind = "zero" THEN e.stored = "0"
                 ELSE e.div = e.n /\ e.mod = 0
           /\ l' = l + 1

\* -resolvers: every address normalised to ip:port (53 by default) and used in rotation
TResolvers == /\ IsEv(l, "Resolvers")
              /\ LET e == Ev(l)
                     k == Len(e.addrs)
                 IN /\ e.err = ""
                    /\ Len(e.dialed) >= k
                    \* consecutive dials walk through the list cyclically, in list order
                    /\ \E off \in 0..(k - 1) :
                         \A i \in 1..Len(e.dialed) :
                            LET a == e.addrs[((i - 1 + off) % k) + 1] IN
                            e.dialed[i] = [ip |-> a.ip, port |-> F!NormPort(a)]
              /\ l' = l + 1

TBadResolvers == /\ IsEv(l, "BadResolvers") /\ Ev(l).err # "" /\ l' = l + 1

TNext == TReset \/ TRate \/ THeader \/ TBadHeader \/ TMaxBody \/ TConnectTo \/ TDNSTTL \/ TResolvers \/ TBadResolvers
TSpec == TInit /\ [][TNext]_vars
HW == HighWater(l)
=============================================================================
