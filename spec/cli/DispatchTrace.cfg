SPECIFICATION TSpec
CONSTRAINT HW
POSTCONDITION Accepted
CHECK_DEADLOCK FALSE
