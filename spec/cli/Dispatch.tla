------------------------------ MODULE Dispatch ------------------------------
(***************************************************************************)
(* The entry point of the program (main.go): global flags, the choice of   *)
(* the command, the hand-over of the remaining arguments to the command's  *)
(* own flag set.  Arguments are tokens; Outcome(args) is what a run must   *)
(* show whose standard input is one JSON-encoded result:                   *)
(*   kind   "help"       -h among the global flags: usage, exit 0          *)
(*          "flagerr"    an undefined or ill-valued global flag: exit 2    *)
(*          "version"    -version (parsed before any command is looked at) *)
(*          "nocmd"      no command: usage, exit 1                         *)
(*          "unknown"    a command that does not exist: exit 1             *)
(*          "cmdhelp"    -h after a command: that command's usage, exit 0  *)
(*          "cmdflagerr" an undefined flag after a command: exit 2         *)
(*          "run"        the command's function ran: report, encode and    *)
(*                       plot render the result (exit 0); attack cannot    *)
(*                       read it as a target and dump is deprecated (1)    *)
(*   usage  whose usage text was printed: "vegeta", a command's, or "none" *)
(*   cmd    the command that ran ("none" otherwise)                        *)
(* The flag package stops at the first token that is not a flag; a flag    *)
(* error wins over -version because it ends the parse.                     *)
(***************************************************************************)
EXTENDS Integers, Sequences, FiniteSets, TLC

GlobalOK  == {"-cpus=1", "-profile="}                 \* accepted, no visible effect on the outcome
GlobalBad == {"-bogus", "-cpus=x"}
Globals   == GlobalOK \cup GlobalBad \cup {"-version", "-h"}
Known     == {"attack", "report", "plot", "encode", "dump"}
WithFlags == Known \ {"dump"}                          \* dump has no flag set: it reports its deprecation whatever follows
Renders   == {"report", "encode", "plot"}             \* they render the one result of the input
Commands  == Known \cup {"bogus"}
CmdFlags  == {"-bogus", "-h", "-version"}              \* (-version is a global flag: after a command it is undefined)

Out(k, e, u, c) == [kind |-> k, exit |-> e, usage |-> u, cmd |-> c]

RECURSIVE Scan(_, _)
\* rest of the arguments, has -version been seen
Scan(args, version) ==
    IF args = <<>> THEN (IF version THEN Out("version", 0, "none", "none") ELSE Out("nocmd", 1, "vegeta", "none"))
    ELSE LET a == Head(args) IN
         IF a \in Globals
         THEN IF a = "-h" THEN Out("help", 0, "vegeta", "none")
              ELSE IF a \in GlobalBad THEN Out("flagerr", 2, "vegeta", "none")
              ELSE Scan(Tail(args), version \/ a = "-version")
         ELSE \* the first token that is not a flag ends the global flags
              IF version THEN Out("version", 0, "none", "none")
              ELSE IF a \notin Known THEN Out("unknown", 1, "none", "none")
              ELSE IF a \notin WithFlags \/ Len(args) = 1 THEN Out("run", IF a \in Renders THEN 0 ELSE 1, "none", a)
              ELSE LET f == args[2] IN
                   IF f = "-h" THEN Out("cmdhelp", 0, a, "none")
                   ELSE Out("cmdflagerr", 2, a, "none")

Outcome(args) == Scan(args, FALSE)

\* every argument list: up to two global flags, then possibly a command, then possibly one flag of its own
GlobalSeqs == {<<>>} \cup {<<g>> : g \in Globals} \cup {<<g, h>> : g, h \in Globals}
Tails == {<<>>} \cup {<<c>> : c \in Commands} \cup {<<c, f>> : c \in Commands, f \in CmdFlags}
ArgLists == {g \o t : g \in GlobalSeqs, t \in Tails}
Cases == {[args |-> a, want |-> Outcome(a)] : a \in ArgLists}

\* facts about the dispatch that TLC checks over all argument lists
VersionWins == \A a \in ArgLists : (\E i \in 1..Len(a) : a[i] = "-version" /\ \A j \in 1..i : a[j] \in GlobalOK \cup {"-version"})
                                      => Outcome(a).kind \in {"version", "help", "flagerr"}
ExitCodes   == \A a \in ArgLists : LET o == Outcome(a) IN
                   /\ o.exit = 0 <=> (o.kind \in {"help", "version", "cmdhelp"} \/ (o.kind = "run" /\ o.cmd \in Renders))
                   /\ o.exit = 2 <=> o.kind \in {"flagerr", "cmdflagerr"}
RunsOnlyKnown == \A a \in ArgLists : Outcome(a).kind = "run" => Outcome(a).cmd \in Known
=============================================================================
