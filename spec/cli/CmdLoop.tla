------------------------------- MODULE CmdLoop -------------------------------
(***************************************************************************)
(* The loops of the encode and plot commands (encode.go:102-120,           *)
(* plot.go:84-109); the report command's loop, which also has a ticker, is *)
(* ReportLoop.tla.                                                         *)
(*                                                                         *)
(*   encode:  for { select { case <-sigch: return nil; default: }          *)
(*                  Decode (blocks on a slow input); EOF -> break;         *)
(*                  Encode }                                               *)
(*   plot:    for { select { case <-sigch: break; default:                 *)
(*                  Decode; EOF -> break; Add } }                          *)
(*            Close; WriteTo                                               *)
(*                                                                         *)
(* Both read a stream that may arrive in bursts.  encode writes every      *)
(* record before it reads the next, so its output is at every moment the   *)
(* prefix read so far; plot writes once, what it has read.  A signal is    *)
(* served only between two reads.                                          *)
(*                                                                         *)
(* Variant (must fail): SigAfterDecode = TRUE models an encode loop that   *)
(* looks at the signal between Decode and Encode, losing the record it     *)
(* holds.                                                                  *)
(***************************************************************************)
EXTENDS Integers, Sequences, FiniteSets

CONSTANTS
    \* @type: Int;
    N,
    \* @type: Str;
    Kind,
    \* @type: Bool;
    SigAfterDecode
ASSUME Kind \in {"encode", "plot"}

VARIABLES
    \* @type: Int;
    avail,
    \* @type: Bool;
    closed,
    \* @type: Int;
    decoded,
    \* @type: Bool;
    sig,
    \* @type: Bool;
    signalled,
    \* @type: Str;
    pc,
    \* @type: Int;
    written,
    \* @type: Bool;
    held
vars == <<avail, closed, decoded, sig, signalled, pc, written, held>>

Init == /\ avail = 0 /\ closed = FALSE /\ decoded = 0 /\ sig = FALSE /\ signalled = FALSE
        /\ pc = "select" /\ written = 0 /\ held = FALSE

Write == ~closed /\ avail < N /\ avail' = avail + 1 /\ UNCHANGED <<closed, decoded, sig, signalled, pc, written, held>>
CloseInput == ~closed /\ avail = N /\ closed' = TRUE /\ UNCHANGED <<avail, decoded, sig, signalled, pc, written, held>>
Signal == ~signalled /\ pc # "done" /\ sig' = TRUE /\ signalled' = TRUE /\ UNCHANGED <<avail, closed, decoded, pc, written, held>>

AfterLoop == IF Kind = "encode" THEN "done" ELSE "final"
TakeSignal == /\ pc = "select" /\ sig /\ sig' = FALSE /\ pc' = AfterLoop
              /\ UNCHANGED <<avail, closed, decoded, signalled, written, held>>
TakeDefault == /\ pc = "select" /\ ~sig /\ pc' = "decoding"
               /\ UNCHANGED <<avail, closed, decoded, sig, signalled, written, held>>
DecodeResult == /\ pc = "decoding" /\ decoded < avail /\ decoded' = decoded + 1 /\ held' = TRUE /\ pc' = "handle"
                /\ UNCHANGED <<avail, closed, sig, signalled, written>>
DecodeEOF == /\ pc = "decoding" /\ decoded = avail /\ closed /\ pc' = AfterLoop
             /\ UNCHANGED <<avail, closed, decoded, sig, signalled, written, held>>
\* the record in hand is encoded (encode) or added to the plot (plot)
Handle == /\ pc = "handle" /\ ~(SigAfterDecode /\ sig)
          /\ held' = FALSE /\ written' = (IF Kind = "encode" THEN written + 1 ELSE written) /\ pc' = "select"
          /\ UNCHANGED <<avail, closed, decoded, sig, signalled>>
DropOnSignal == /\ SigAfterDecode /\ pc = "handle" /\ sig /\ sig' = FALSE /\ held' = FALSE /\ pc' = AfterLoop
                /\ UNCHANGED <<avail, closed, decoded, signalled, written>>
Final == /\ pc = "final" /\ written' = decoded /\ pc' = "done"
         /\ UNCHANGED <<avail, closed, decoded, sig, signalled, held>>

Env == Write \/ CloseInput \/ Signal
Loop == TakeSignal \/ TakeDefault \/ DecodeResult \/ DecodeEOF \/ Handle \/ DropOnSignal \/ Final
Next == Env \/ Loop
Spec == Init /\ [][Next]_vars
FairSpec == Spec /\ WF_vars(Loop) /\ WF_vars(Write) /\ WF_vars(CloseInput)

TypeOK == avail \in 0..N /\ decoded \in 0..avail /\ written \in 0..decoded /\ pc \in {"select", "decoding", "handle", "final", "done"}
\* encode: what has been read and is not in hand has been written
NoLoss == Kind = "encode" => written = decoded - (IF held THEN 1 ELSE 0)
\* when the command has ended, the output is everything that was read ...
DoneWritesAll == pc = "done" => written = decoded /\ ~held
\* ... which is the whole input unless it was interrupted
WholeUnlessInterrupted == (pc = "done" /\ ~signalled) => written = N
Terminates == <>(pc = "done")

(*------------- for every input length (Apalache, N an unconstrained natural number) -------------*)
ConstInit == N \in Nat /\ Kind \in {"encode", "plot"} /\ SigAfterDecode = FALSE
IndInv == /\ avail >= 0 /\ avail <= N /\ decoded >= 0 /\ decoded <= avail /\ written >= 0
          /\ pc \in {"select", "decoding", "handle", "final", "done"}
          /\ (held <=> pc = "handle")
          /\ (closed => avail = N)
          /\ (sig => signalled)
          /\ (Kind = "encode" => pc # "final" /\ written = decoded - (IF held THEN 1 ELSE 0))
          /\ (Kind = "plot" => written = (IF pc = "done" THEN decoded ELSE 0))
          /\ ((pc \in {"final", "done"} /\ ~signalled) => (decoded = N /\ closed))
IndInit == /\ avail \in Int /\ closed \in BOOLEAN /\ decoded \in Int /\ sig \in BOOLEAN /\ signalled \in BOOLEAN
           /\ pc \in {"select", "decoding", "handle", "final", "done"} /\ written \in Int /\ held \in BOOLEAN
           /\ IndInv
Goal == NoLoss /\ DoneWritesAll /\ WholeUnlessInterrupted

\* the contract on its own, for the trace specification: the output holds the first k records of an input of n, in order
ContractOK(ids, n, wasSignalled) ==
    /\ Len(ids) <= n
    /\ \A i \in 1..Len(ids) : ids[i] = i
    /\ (~wasSignalled => Len(ids) = n)
=============================================================================
