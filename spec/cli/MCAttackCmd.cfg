INIT Init
NEXT Next
