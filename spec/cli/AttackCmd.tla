------------------------------ MODULE AttackCmd ------------------------------
(***************************************************************************)
(* The attack command end to end (attack.go:114-263): what its flags mean  *)
(* for the requests a server sees and for the results written.             *)
(*                                                                         *)
(* The command is a pipeline of set-up steps, each of which can end it     *)
(* with an error, followed by the attack proper:                           *)
(*   guard (-rate=0 needs -max-workers) -> resolvers -> open targets/body  *)
(*   -> targeter of the chosen format -> (eager) read all targets -> open  *)
(*   output -> TLS material -> Prometheus exporter -> attacker with all    *)
(*   options -> Attack -> result pump.                                     *)
(*                                                                         *)
(* A case c fixes the flags and the target list; an observation o is what  *)
(* an in-process loopback server saw (one record per request) and the      *)
(* results decoded from the -output file.  CmdOK(c, o) is the contract.    *)
(*                                                                         *)
(* The target list (K = 7 entries, all against the one server):            *)
(*   1 GET  /ok/1                                                          *)
(*   2 POST /echo          own body "own"                                  *)
(*   3 GET  /size/5                                                        *)
(*   4 GET  /redirect/1    (answers 302 -> /redirect/0 -> 200)             *)
(*   5 GET  /status/404    own header X-Own: 1                             *)
(*   6 GET  /slow/800 when c.timeout = "short", else GET /ok/6             *)
(*   7 GET  /promwait/6 when c.prom, else GET /ok/7                        *)
(*   8 a malformed target when c.bad = "late"                              *)
(* When c.rate = 0 and ~c.lazy the list is instead K copies of             *)
(* GET /slow/20/i, so that free capacity is visibly used.                  *)
(*                                                                         *)
(* Case fields                                                             *)
(*   server    "plain" | "tls" | "unix" | "tls2" (TLS offering HTTP/2) |   *)
(*             "mtls" (TLS that demands a client certificate: -cert/-key,  *)
(*             clientcert "none" | "pair" | "onefile" = key inside -cert)  *)
(*   tickets   -session-tickets (TLS session resumption)                   *)
(*             "h2c" (HTTP/2 without TLS, and HTTP/1.1)                    *)
(*   http2     -http2 (default true)     h2c   -h2c                        *)
(*   hosthdr   -header "Host: virtual.example": the request's host          *)
(*   dnsdest   "none" | "forever" | "off": the -connect-to destination is a   *)
(*             name served by the driver's DNS server (-resolvers), with the *)
(*             default -dns-ttl (kept for ever) or -dns-ttl=-1 (not kept);   *)
(*             "chain": as "forever", plus a second tuple that maps the      *)
(*             destination name on to a closed port (tuples are applied      *)
(*             once, not followed along);                                    *)
(*             "expire": -dns-ttl=100ms, and the name stops resolving 0.3 s  *)
(*             into a run of three seconds                                   *)
(*             o.dnsq = the number of address queries the server received    *)
(*   lookup    the targets name the server as localhost (looked up by the     *)
(*             caching dialer) and -dns-ttl=1us: the ttl is how long an      *)
(*             answer is kept, not how long a lookup may take                *)
(*   head      entry 3 is a HEAD request (the response announces its five     *)
(*             bytes and carries none)                                      *)
(*   stall     -output is a named pipe whose reader does not read for the   *)
(*             first second: results are not taken, so every released hit   *)
(*             needs a worker of its own (list: K times GET /size/100000/i, *)
(*             -rate=200/s, -timeout=100ms, -duration=1.2s, -max-workers=64)*)
(*   trust     "na" | "insecure" | "rootcert" | "none"   (tls only)        *)
(*   format    "http" | "json"                                             *)
(*   lazy      -lazy: the list is read while attacking and its end stops   *)
(*             the attack; otherwise it is read first and cycled until     *)
(*             -duration (100 ms) is over                                  *)
(*   bad       "none" | "late"                                             *)
(*   rate      hits per second; 0 = unlimited                              *)
(*   maxw      -max-workers        workers   -workers                      *)
(*   name      -name               hdr       two -header flags             *)
(*   body      -body file "dflt"   chunked   -chunked                      *)
(*   maxbody   -max-body (-1 unlimited)                                    *)
(*   redirects "default" | "nofollow" (-redirects=-1) | "zero" (=0)         *)
(*   keepalive -keepalive          timeout   "default" | "short" (50 ms)   *)
(*   connectto targets name e2e.invalid:PORT, -connect-to maps it          *)
(*   laddr     -laddr=127.0.0.2    prom      -prometheus-addr              *)
(*   maxconn   -max-connections (0 = unlimited): connections per host      *)
(*   hosts     1 | 2: with connectto the entries alternate between the     *)
(*             names E2E.invalid and E2Eb.invalid (both mapped to the      *)
(*             server; letter case as written)                             *)
(***************************************************************************)
EXTENDS Integers, Sequences, FiniteSets, TLC

K == 7
DurMs == 100
Min(a, b) == IF a <= b THEN a ELSE b

Base == [server |-> "plain", trust |-> "na", format |-> "http", lazy |-> TRUE, bad |-> "none", rate |-> 0, maxw |-> 1, workers |-> 1,
         name |-> "", hdr |-> FALSE, body |-> FALSE, chunked |-> FALSE, maxbody |-> -1, redirects |-> "default", keepalive |-> TRUE,
         timeout |-> "default", connectto |-> FALSE, laddr |-> FALSE, prom |-> FALSE, maxconn |-> 0, hosts |-> 1,
         http2 |-> TRUE, h2c |-> FALSE, hosthdr |-> FALSE, stall |-> FALSE, head |-> FALSE, lookup |-> FALSE, dnsdest |-> "none", clientcert |-> "none", tickets |-> FALSE]

Valid(c) ==
    /\ c.server \in {"plain", "tls", "unix", "tls2", "h2c", "mtls"} /\ c.format \in {"http", "json"} /\ c.bad \in {"none", "late"}
    /\ (c.server \in {"tls", "tls2", "mtls"}) = (c.trust # "na")
    /\ (c.tickets => c.server \in {"tls", "tls2", "mtls"})
    /\ c.clientcert \in {"none", "pair", "onefile"} /\ (c.clientcert # "none" => c.server \in {"tls", "mtls"})
    /\ (c.h2c => c.server = "h2c") /\ c.trust \in {"na", "insecure", "rootcert", "none"}
    /\ (c.stall => c = [Base EXCEPT !.stall = TRUE, !.lazy = FALSE, !.rate = 200, !.maxw = 64])
    /\ (c.lookup => c.server = "plain" /\ ~c.connectto /\ ~c.laddr /\ ~c.hosthdr)
    /\ c.dnsdest \in {"none", "forever", "off", "expire", "chain"} /\ (c.dnsdest = "expire" => ~c.lazy /\ c.rate = 50 /\ c.bad = "none")
    /\ (c.dnsdest # "none" => c.connectto /\ c.server = "plain" /\ c.hosts = 1 /\ ~c.keepalive /\ ~c.laddr /\ c.timeout = "default" /\ c.maxconn = 0)
    /\ (c.head => ~c.body)           \* (a HEAD request is sent without a body here)
    /\ c.rate \in {0, 2, 50, 200}          \* (2 per second: the duration is shorter than one pacing interval) /\ c.maxw \in {1, 3, 64} /\ (c.maxw = 64 => c.stall) /\ c.workers \in {1, 3}
    /\ c.maxbody \in {-1, 0, 2, 9} /\ c.redirects \in {"default", "nofollow", "zero"} /\ c.timeout \in {"default", "short"}
    /\ (c.prom => c.lazy /\ c.maxw = 1 /\ c.trust # "none" /\ c.bad = "none" /\ c.timeout = "default")   \* the waiting target must come last
    /\ (c.server = "unix" => ~c.connectto /\ ~c.laddr)
    /\ (c.connectto => c.server \in {"plain", "h2c"} /\ ~c.h2c)   \* -h2c swaps the transport: options applied after it are ignored (see DESIGN)
    /\ c.maxconn \in {0, 1, 2} /\ c.hosts \in {1, 2} /\ (c.hosts = 2 => c.connectto)
    /\ (c.rate = 2 => ~c.lazy)                       \* (a list is read to its end only at the faster rates: lazy runs are bounded by 2 s)
    /\ (c.timeout = "short" => c.maxconn = 0)      \* hits queueing for a connection held by the slow one would time out too

\* one factor at a time from the base, and from the eager base; pairs that interact
Single ==
    {Base}
    \cup {[Base EXCEPT !.format = "json"], [Base EXCEPT !.lazy = FALSE, !.rate = 50], [Base EXCEPT !.lazy = FALSE, !.rate = 200, !.maxw = 3],
          [Base EXCEPT !.lazy = FALSE, !.rate = 0, !.maxw = 3], [Base EXCEPT !.lazy = FALSE, !.rate = 0, !.maxw = 3, !.workers = 3],
          [Base EXCEPT !.lazy = FALSE, !.rate = 0, !.maxw = 1, !.workers = 3],
          [Base EXCEPT !.bad = "late"], [Base EXCEPT !.bad = "late", !.lazy = FALSE, !.rate = 50], [Base EXCEPT !.bad = "late", !.format = "json"],
          [Base EXCEPT !.bad = "late", !.format = "json", !.lazy = FALSE, !.rate = 50],
          [Base EXCEPT !.maxw = 3], [Base EXCEPT !.maxw = 3, !.workers = 3], [Base EXCEPT !.name = "n"], [Base EXCEPT !.hdr = TRUE],
          [Base EXCEPT !.body = TRUE], [Base EXCEPT !.body = TRUE, !.chunked = TRUE], [Base EXCEPT !.chunked = TRUE],
          [Base EXCEPT !.maxbody = 0], [Base EXCEPT !.maxbody = 2], [Base EXCEPT !.maxbody = 9], [Base EXCEPT !.redirects = "nofollow"], [Base EXCEPT !.redirects = "zero"], [Base EXCEPT !.redirects = "zero", !.lazy = FALSE, !.rate = 50, !.format = "json"],
          [Base EXCEPT !.keepalive = FALSE], [Base EXCEPT !.keepalive = FALSE, !.maxw = 3], [Base EXCEPT !.timeout = "short"],
          [Base EXCEPT !.connectto = TRUE], [Base EXCEPT !.laddr = TRUE], [Base EXCEPT !.prom = TRUE], [Base EXCEPT !.prom = TRUE, !.format = "json"],
          [Base EXCEPT !.server = "unix"], [Base EXCEPT !.server = "tls", !.trust = "insecure"], [Base EXCEPT !.server = "tls", !.trust = "rootcert"],
          [Base EXCEPT !.server = "tls", !.trust = "none"], [Base EXCEPT !.server = "tls", !.trust = "insecure", !.keepalive = FALSE],
          [Base EXCEPT !.format = "json", !.body = TRUE, !.hdr = TRUE, !.name = "n"],
          [Base EXCEPT !.server = "tls2", !.trust = "insecure"], [Base EXCEPT !.server = "tls2", !.trust = "rootcert", !.http2 = FALSE],
          [Base EXCEPT !.server = "tls2", !.trust = "insecure", !.lazy = FALSE, !.rate = 0, !.maxw = 3],
          [Base EXCEPT !.server = "tls", !.trust = "insecure", !.http2 = FALSE],
          [Base EXCEPT !.server = "h2c", !.h2c = TRUE], [Base EXCEPT !.server = "h2c"], [Base EXCEPT !.server = "h2c", !.h2c = TRUE, !.lazy = FALSE, !.rate = 0, !.maxw = 3],
          [Base EXCEPT !.server = "h2c", !.h2c = TRUE, !.body = TRUE, !.hdr = TRUE, !.maxbody = 2],
          [Base EXCEPT !.lazy = FALSE, !.rate = 2], [Base EXCEPT !.lazy = FALSE, !.rate = 2, !.maxw = 3, !.workers = 3],
          [Base EXCEPT !.stall = TRUE, !.lazy = FALSE, !.rate = 200, !.maxw = 64],
          [Base EXCEPT !.lookup = TRUE], [Base EXCEPT !.lookup = TRUE, !.lazy = FALSE, !.rate = 50, !.maxw = 3],
          [Base EXCEPT !.connectto = TRUE, !.keepalive = FALSE, !.dnsdest = "forever"], [Base EXCEPT !.connectto = TRUE, !.keepalive = FALSE, !.dnsdest = "off"],
          [Base EXCEPT !.connectto = TRUE, !.keepalive = FALSE, !.dnsdest = "forever", !.lazy = FALSE, !.rate = 50, !.maxw = 3],
          [Base EXCEPT !.connectto = TRUE, !.keepalive = FALSE, !.dnsdest = "expire", !.lazy = FALSE, !.rate = 50, !.maxw = 3],
          [Base EXCEPT !.connectto = TRUE, !.keepalive = FALSE, !.dnsdest = "chain"],
          [Base EXCEPT !.server = "mtls", !.trust = "insecure", !.clientcert = "pair"], [Base EXCEPT !.server = "mtls", !.trust = "rootcert", !.clientcert = "onefile"],
          [Base EXCEPT !.server = "mtls", !.trust = "insecure"], [Base EXCEPT !.server = "tls", !.trust = "insecure", !.clientcert = "pair"],
          [Base EXCEPT !.server = "tls", !.trust = "insecure", !.keepalive = FALSE, !.tickets = TRUE], [Base EXCEPT !.server = "tls", !.trust = "rootcert", !.tickets = TRUE],
          [Base EXCEPT !.server = "mtls", !.trust = "insecure", !.clientcert = "pair", !.keepalive = FALSE, !.tickets = TRUE],
          [Base EXCEPT !.server = "mtls", !.trust = "insecure", !.clientcert = "pair", !.lazy = FALSE, !.rate = 0, !.maxw = 3, !.keepalive = FALSE],
          [Base EXCEPT !.head = TRUE], [Base EXCEPT !.head = TRUE, !.maxbody = 2], [Base EXCEPT !.head = TRUE, !.maxbody = 0, !.server = "tls", !.trust = "insecure"],
          [Base EXCEPT !.hosthdr = TRUE], [Base EXCEPT !.hosthdr = TRUE, !.hdr = TRUE, !.format = "json"], [Base EXCEPT !.hosthdr = TRUE, !.connectto = TRUE],
          [Base EXCEPT !.maxconn = 1], [Base EXCEPT !.maxconn = 1, !.maxw = 3], [Base EXCEPT !.connectto = TRUE, !.hosts = 2],
          [Base EXCEPT !.lazy = FALSE, !.rate = 0, !.maxw = 3, !.maxconn = 1], [Base EXCEPT !.lazy = FALSE, !.rate = 0, !.maxw = 3, !.maxconn = 2],
          [Base EXCEPT !.lazy = FALSE, !.rate = 0, !.maxw = 3, !.maxconn = 1, !.connectto = TRUE, !.hosts = 2],
          [Base EXCEPT !.lazy = FALSE, !.rate = 0, !.maxw = 3, !.maxconn = 2, !.connectto = TRUE, !.hosts = 2],
          [Base EXCEPT !.lazy = FALSE, !.rate = 0, !.maxw = 3, !.connectto = TRUE, !.hosts = 2],
          [Base EXCEPT !.lazy = FALSE, !.rate = 50, !.format = "json", !.body = TRUE, !.hdr = TRUE, !.name = "n", !.maxbody = 2]}
Cases == {c \in Single : Valid(c)}
ASSUME Cases = Single          \* every listed case is valid

(*------------------------------ the target list ------------------------------*)
SlowList(c) == c.rate = 0 /\ ~c.lazy
PathOf(c, i) == IF c.stall THEN "/size/100000/" \o ToString(i)
                ELSE IF SlowList(c) THEN "/slow/20/" \o ToString(i)
                ELSE CASE i = 1 -> "/ok/1" [] i = 2 -> "/echo" [] i = 3 -> "/size/5" [] i = 4 -> "/redirect/1" [] i = 5 -> "/status/404"
                       [] i = 6 -> (IF c.timeout = "short" THEN "/slow/800" ELSE "/ok/6")
                       [] i = 7 -> (IF c.prom THEN "/promwait/6" ELSE "/ok/7")
MethodOf(c, i) == IF ~SlowList(c) /\ ~c.stall /\ i = 2 THEN "POST" ELSE IF ~SlowList(c) /\ ~c.stall /\ i = 3 /\ c.head THEN "HEAD" ELSE "GET"
OwnBody(c, i) == ~SlowList(c) /\ ~c.stall /\ i = 2
BodyOf(c, i) == IF OwnBody(c, i) THEN "own" ELSE IF c.body THEN "dflt" ELSE ""
RespSize(c, i) == IF SlowList(c) THEN 4
                  ELSE CASE i = 1 -> 2 [] i = 2 -> Len(BodyOf(c, 2)) [] i = 3 -> (IF c.head THEN 0 ELSE 5) [] i = 5 -> 1
                         [] i = 4 -> (IF c.redirects = "nofollow" THEN 0 ELSE 3)     \* the 302 of net/http carries no body for the client that does not follow
                         [] i = 6 -> (IF c.timeout = "short" THEN 4 ELSE 2)
                         [] i = 7 -> (IF c.prom THEN 4 ELSE 2)
StatusOf(c, i) == IF SlowList(c) THEN 200
                  ELSE IF i = 5 THEN 404 ELSE IF i = 4 /\ c.redirects = "nofollow" THEN 302 ELSE 200
HostOf(c, i) == IF c.lookup THEN "localhost" ELSE IF ~c.connectto THEN "127.0.0.1" ELSE IF c.hosts = 2 /\ i % 2 = 0 THEN "E2Eb.invalid" ELSE "E2E.invalid"
\* what the attack can have in flight at once: the workers, and per host the connections
Capacity(c) == IF c.maxconn = 0 \/ c.h2c \/ (c.server = "tls2" /\ c.http2) THEN c.maxw ELSE Min(c.maxw, c.hosts * c.maxconn)   \* HTTP/2 multiplexes
TimesOut(c, i) == ~SlowList(c) /\ i = 6 /\ c.timeout = "short"
\* -redirects=0: the first redirect is one too many - the hit fails instead of following it
OverLimit(c, i) == PathOf(c, i) = "/redirect/1" /\ c.redirects = "zero"
Captured(c, i) == IF c.maxbody < 0 THEN RespSize(c, i) ELSE Min(c.maxbody, RespSize(c, i))

(*------------------------------ the contract ------------------------------*)
\* the protocol the server sees
Proto(c) == IF (c.server = "tls2" /\ c.http2) \/ c.h2c THEN "HTTP/2.0" ELSE "HTTP/1.1"
Reaches(c) == c.trust # "none" /\ (c.server = "mtls" => c.clientcert # "none")                       \* hits reach the handler of the server
SetupFails(c) == c.bad = "late" /\ ~c.lazy           \* reading all targets first meets the malformed one

\* results: sequence of [seq, kind, idx, code, err_empty, body_len, bytes_in, bytes_out, attack, method, path, latency_ms]
\*   kind "hit" = a target was drawn (idx = its position in the list, 0 if the URL matches none), "end" = the targeter reported the end
\*   of the list or a malformed target
\* reqs: sequence of [seq, attack, method, path, host, flag (values of X-Flag), own (values of X-Own), body, chunked, ip, conn, tls, start, end]
Hits(o) == SelectSeq(o.results, LAMBDA r : r.kind = "hit")
Ends(o) == SelectSeq(o.results, LAMBDA r : r.kind = "end")
ReqsOf(o, s) == {i \in 1..Len(o.reqs) : o.reqs[i].seq = s}
Overlap(o, i) == Cardinality({j \in 1..Len(o.reqs) : o.reqs[j].start <= o.reqs[i].start /\ o.reqs[i].start < o.reqs[j].end})
OverlapH(o, i) == Cardinality({j \in 1..Len(o.reqs) : o.reqs[j].dialhost = o.reqs[i].dialhost /\ o.reqs[j].start <= o.reqs[i].start /\ o.reqs[i].start < o.reqs[j].end})
MaxConc(o) == IF o.reqs = <<>> THEN 0 ELSE CHOOSE m \in {Overlap(o, i) : i \in 1..Len(o.reqs)} : \A i \in 1..Len(o.reqs) : Overlap(o, i) <= m

ResultOK(c, o, r) ==
    LET i == r.idx IN
    /\ i \in 1..K
    /\ r.attack = c.name /\ r.method = MethodOf(c, i) /\ r.path = PathOf(c, i)
    /\ IF ~Reaches(c) THEN r.code = 0 /\ ~r.err_empty /\ ReqsOf(o, r.seq) = {}
       ELSE IF TimesOut(c, i) THEN ~r.err_empty /\ ~(r.code \in 200..399) /\ r.latency_ms >= 50 /\ r.latency_ms < 800
       ELSE IF OverLimit(c, i) THEN /\ ~r.err_empty /\ ~(r.code \in 200..399)
                                    /\ {o.reqs[j].path : j \in ReqsOf(o, r.seq)} = {"/redirect/1"}
       ELSE /\ r.code = StatusOf(c, i)
            /\ r.err_empty = (r.code \in 200..399)
            /\ r.body_len = Captured(c, i) /\ r.bytes_in = Captured(c, i)
            /\ r.bytes_out = Len(BodyOf(c, i))
            /\ ReqsOf(o, r.seq) # {}
            \* redirects: followed by default (both requests carry the hit's sequence number), not with -redirects=-1
            /\ (PathOf(c, i) = "/redirect/1" =>
                   {o.reqs[j].path : j \in ReqsOf(o, r.seq)} = (IF c.redirects = "nofollow" THEN {"/redirect/1"} ELSE {"/redirect/1", "/redirect/0"}))
            /\ (PathOf(c, i) # "/redirect/1" => Cardinality(ReqsOf(o, r.seq)) = 1)

RequestOK(c, o, q) ==
    /\ \E k \in 1..Len(o.results) : o.results[k].seq = q.seq /\ o.results[k].kind = "hit"      \* no request without a result
    /\ q.attack = c.name
    /\ q.tls = (c.server \in {"tls", "tls2", "mtls"})
    /\ (c.server = "mtls" => q.client_certs >= 1)       \* -cert / -key: the certificate was presented
    /\ q.proto = Proto(c)
    /\ (c.laddr => q.ip = "127.0.0.2")
    /\ q.flag = (IF c.hdr THEN <<"a", "b">> ELSE <<>>)                  \* both -header flags (values sorted by the harness: HTTP/2 has no order between them)
    /\ LET r == o.results[CHOOSE k \in 1..Len(o.results) : o.results[k].seq = q.seq]
           i == r.idx
       IN /\ i \in 1..K
          /\ (c.server # "unix" \/ c.hosthdr => q.host = (IF c.hosthdr THEN "virtual.example" ELSE HostOf(c, i)))   \* a Host header sets the request's host           \* the name of the URL as written; with -connect-to the mapped address was dialled
          /\ (q.path # "/redirect/0" =>
                /\ q.method = MethodOf(c, i) /\ q.path = PathOf(c, i)
                /\ q.body = BodyOf(c, i)
                /\ (Proto(c) = "HTTP/1.1" => q.chunked = (c.chunked /\ BodyOf(c, i) # ""))
                /\ q.own = (IF ~SlowList(c) /\ i = 5 THEN <<"1">> ELSE <<>>))

CmdOK(c, o) ==
    /\ Valid(c)
    /\ IF SetupFails(c)
       THEN o.err # "" /\ o.reqs = <<>> /\ o.results = <<>>            \* nothing is attacked and nothing is written
       ELSE
       /\ o.err = ""
       /\ o.decode_err = ""                                            \* the output file is a well-formed result stream
       /\ ~o.truncated                                                 \* (the harness logs at most 300 results: no case comes near)
       \* sequence numbers are 0..n-1, each once
       /\ {o.results[k].seq : k \in 1..Len(o.results)} = 0..(Len(o.results) - 1)
       \* (in the stalled run a hit may well run into its 100 ms timeout: its results are not judged one by one)
       /\ (~c.stall /\ c.dnsdest # "expire" => \A k \in 1..Len(o.results) : o.results[k].kind = "hit" => ResultOK(c, o, o.results[k]))
       /\ (~c.stall => \A j \in 1..Len(o.reqs) : RequestOK(c, o, o.reqs[j]))
       \* while nobody takes results every released hit occupies a worker: with fewer than max-workers busy it still starts at once
       \* (o.early = requests the server saw begin before the reader of the output started to read, a second into the attack:
       \*  by then the pacer has released far more hits than there are workers; two thirds of the workers, at least, are busy)
       /\ (c.stall => 3 * o.early >= 2 * Min(c.maxw, (c.rate * 1000) \div 1000))
       \* how many hits
       /\ IF c.lazy
          THEN \* the list is attacked once, entry by entry, then its end (or the malformed entry) stops the attack
               /\ {r.idx : r \in {Hits(o)[k] : k \in 1..Len(Hits(o))}} = 1..K
               /\ Len(Hits(o)) = K
               /\ Len(Ends(o)) >= 1                       \* (the loop may hand out further ticks before it sees the stop)
               /\ \A k \in 1..Len(Ends(o)) : ~Ends(o)[k].err_empty /\ Ends(o)[k].code = 0
               /\ (c.maxw = 1 => \A k \in 1..K : Hits(o)[k].idx = k /\ Hits(o)[k].seq = k - 1)
          ELSE /\ Ends(o) = <<>>
               /\ Len(Hits(o)) >= 1
               /\ (c.rate > 0 => Len(Hits(o)) <= (c.rate * (IF c.stall THEN 1200 ELSE IF c.dnsdest = "expire" THEN 3000 ELSE DurMs)) \div 1000 + 1)
               /\ (c.maxw = 1 => \A k \in 1..Len(Hits(o)) : Hits(o)[k].idx = ((Hits(o)[k].seq) % K) + 1)
       \* -max-workers bounds what the server sees at once; with an unlimited rate and slow answers the capacity is used
       \* (a request the client gave up on is still running in the server: cases with a timeout are left out)
       /\ (c.timeout = "default" /\ ~c.stall => MaxConc(o) <= c.maxw)
       /\ (SlowList(c) /\ Reaches(c) /\ Len(Hits(o)) >= 3 * c.maxw => MaxConc(o) = Capacity(c))
       \* -max-connections bounds what one host sees at once
       /\ (c.maxconn > 0 /\ c.timeout = "default" /\ Proto(c) = "HTTP/1.1" => \A i \in 1..Len(o.reqs) : OverlapH(o, i) <= c.maxconn)
       \* -keepalive=false: a connection per request; one sequential worker with keep-alive stays on one connection
       /\ (~c.keepalive /\ Reaches(c) /\ c.server # "unix" /\ Proto(c) = "HTTP/1.1" => Cardinality({o.reqs[j].conn : j \in 1..Len(o.reqs)}) = Len(o.reqs))
       /\ (c.keepalive /\ c.maxw = 1 /\ c.timeout = "default" /\ Reaches(c) /\ c.server # "unix" /\ Proto(c) = "HTTP/1.1" => Cardinality({o.reqs[j].conn : j \in 1..Len(o.reqs)}) = Cardinality({o.reqs[j].dialhost : j \in 1..Len(o.reqs)}))   \* one per host attacked
       \* -connect-to with a destination given by name, looked up through -resolvers: the mapped connections still go through
       \* the -dns-ttl policy - kept for ever by default (one lookup however many connections), none kept with -1
       /\ (c.dnsdest \in {"forever", "chain"} /\ Reaches(c) => o.dnsq >= 1 /\ o.dnsq <= c.maxw)    \* (workers that start together may each miss the still empty cache)
       \* (the resolver answers lookups of one name that are in progress at the same time with a single query: one per request is
       \* certain for a single worker only; with more, a request beyond the first max-workers needs a lookup of its own)
       /\ (c.dnsdest = "off" /\ Reaches(c) /\ c.maxw = 1 => o.dnsq >= Len(o.reqs))
       /\ (c.dnsdest = "off" /\ Reaches(c) /\ Len(o.reqs) > c.maxw => o.dnsq >= 2)
       \* -dns-ttl=100ms over three seconds, the name gone after 0.3 s: hits succeed while it resolves; once the answer is older
       \* than the ttl it is asked for again, so from 1.5 s after the name went no hit succeeds any more
       /\ (c.dnsdest = "expire" /\ Reaches(c) => o.early_ok >= 1 /\ o.late_n >= 1 /\ o.late_ok = 0)
       \* -prometheus-addr: by the time the last target is answered the exporter has counted the six results before it
       /\ (c.prom => o.prom_count >= 6)

(*--------------------------- which check is asking ---------------------------*)
\* The contract runs inside the checks of several listed properties (those whose anchors include the command's wiring) and on
\* its own (`bin/vcheck ACMD`).  Flags that no listed property speaks about are judged only when it runs on its own, and those of
\* one property only in the checks of that property: a change that breaks, say, -cert leaves C03 as true as it was.
OwnOnly(c)  == c.server = "mtls" \/ c.clientcert # "none" \/ c.tickets          \* client certificates, session tickets: no listed property
Concerns(c, p) ==
    /\ (OwnOnly(c) => p = "ACMD")
    /\ (c.redirects = "zero" => p \in {"ACMD", "C06"})                           \* the redirect limit is C06's
    /\ (c.dnsdest # "none" => p \in {"ACMD", "C18", "C19"})                      \* -connect-to / -dns-ttl / -resolvers are C18's and C19's
\* -session-tickets: without it no TLS session is ever resumed; with it one sequential worker that opens a connection per
\* request makes one full handshake, every later connection resumes the session
TicketsOK(c, o) ==
    SetupFails(c) \/
       (/\ (~c.tickets /\ c.server \in {"tls", "tls2", "mtls"} => \A j \in 1..Len(o.reqs) : ~o.reqs[j].resumed)
        /\ (c.tickets /\ ~c.keepalive /\ c.maxw = 1 /\ c.timeout = "default" /\ Reaches(c) /\ Proto(c) = "HTTP/1.1"
              => Cardinality({j \in 1..Len(o.reqs) : ~o.reqs[j].resumed}) = 1))
CmdOKFor(c, o, p) == Concerns(c, p) => (CmdOK(c, o) /\ (p = "ACMD" => TicketsOK(c, o)))
=============================================================================
