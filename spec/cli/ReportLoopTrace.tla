-------------------------- MODULE ReportLoopTrace --------------------------
(***************************************************************************)
(* Runs of the real report command (-type=json -every=...) over a slow     *)
(* pipe, with and without an interrupt, validated against ReportLoop's     *)
(* contract and against the prefix sums of the input.                      *)
(*   Reset   {n, results: [[lat, bin, bout, code, failed]...], signalled}  *)
(*   Report  {requests, lat_total, bin_total, bout_total, ok, codes}       *)
(*           one per JSON document found in the output, in order           *)
(*   End     {err}                                                         *)
(* Every report must be the report of a prefix k of the input (requests =  *)
(* k, totals = the sums over the first k results, success count, status    *)
(* code counts), k grows, and the last one covers the whole input unless   *)
(* the run was interrupted.                                                *)
(***************************************************************************)
EXTENDS Integers, Sequences, FiniteSets, TLC, TraceKit
VARIABLES l, c, ks
vars == <<l, c, ks>>
R == INSTANCE ReportLoop WITH N <- 0, MaxTicks <- 0, Windowed <- FALSE,
        avail <- 0, closed <- FALSE, decoded <- 0, base <- 0, tick <- FALSE, fired <- 0, sig <- FALSE,
        signalled <- FALSE, pc <- "done", out <- <<>>

RECURSIVE SumTo(_, _, _)
SumTo(rs, k, f) == IF k = 0 THEN 0 ELSE rs[k][f] + SumTo(rs, k - 1, f)
CountTo(rs, k, P(_)) == Cardinality({i \in 1..k : P(rs[i])})

TInit == l = 1 /\ c = [n |-> 0, results |-> <<>>, signalled |-> FALSE] /\ ks = <<>> /\ InitHighWater
TReset == /\ IsEv(l, "Reset") /\ c' = Ev(l) /\ ks' = <<>> /\ l' = l + 1

\* fields of a result: 1 latency, 2 bytes in, 3 bytes out, 4 code, 5 failed (0/1)
TReport ==
    /\ IsEv(l, "Report")
    /\ LET e == Ev(l)
           k == e.requests
       IN /\ k \in 0..c.n
          /\ (ks # <<>> => ks[Len(ks)] <= k)
          /\ e.lat_total = SumTo(c.results, k, 1)
          /\ e.bin_total = SumTo(c.results, k, 2)
          /\ e.bout_total = SumTo(c.results, k, 3)
          /\ e.ok = CountTo(c.results, k, LAMBDA r : r[5] = 0)
          /\ \A code \in {c.results[i][4] : i \in 1..c.n} \cup {e.codes[j][1] : j \in 1..Len(e.codes)} :
                LET want == CountTo(c.results, k, LAMBDA r : r[4] = code)
                    got == {e.codes[j][2] : j \in {j \in 1..Len(e.codes) : e.codes[j][1] = code}}
                IN IF want = 0 THEN got = {} ELSE got = {want}
          /\ ks' = Append(ks, k)
    /\ l' = l + 1 /\ UNCHANGED c

TEnd == /\ IsEv(l, "End")
        /\ R!ContractOK(ks, c.n, c.signalled, Ev(l).err)
        /\ Ev(l).err = ""
        /\ l' = l + 1 /\ UNCHANGED <<c, ks>>

TNext == TReset \/ TReport \/ TEnd
TSpec == TInit /\ [][TNext]_vars
HW == HighWater(l)
=============================================================================
