----------------------------- MODULE MCAttackCmd -----------------------------
EXTENDS AttackCmd, Json, IOUtils, SequencesExt
ASSUME Export == IF "CASES_OUT" \in DOMAIN IOEnv THEN ndJsonSerialize(IOEnv.CASES_OUT, SetToSeq(Cases)) ELSE TRUE
\* internal consistency of the case analysis
ASSUME \A c \in Cases : \A i \in 1..K : Captured(c, i) \in 0..RespSize(c, i)
ASSUME \A c \in Cases : \A i, j \in 1..K : i # j => PathOf(c, i) # PathOf(c, j)     \* a result identifies its list entry
ASSUME \A c \in Cases : SetupFails(c) => ~c.prom
VARIABLE x
Init == x = 0
Next == x' = x
=============================================================================
