---- MODULE MCReportLoop_TTrace_1790577650 ----
EXTENDS Sequences, TLCExt, Toolbox, MCReportLoop, Naturals, TLC

_expression ==
    LET MCReportLoop_TEExpression == INSTANCE MCReportLoop_TEExpression
    IN MCReportLoop_TEExpression!expression
----

_trace ==
    LET MCReportLoop_TETrace == INSTANCE MCReportLoop_TETrace
    IN MCReportLoop_TETrace!trace
----

_inv ==
    ~(
        TLCGet("level") = Len(_TETrace)
        /\
        sig = (FALSE)
        /\
        fired = (2)
        /\
        avail = (1)
        /\
        pc = ("select")
        /\
        closed = (FALSE)
        /\
        decoded = (1)
        /\
        signalled = (FALSE)
        /\
        tick = (FALSE)
        /\
        out = (<<[from |-> 0, to |-> 1], [from |-> 1, to |-> 1]>>)
        /\
        base = (1)
    )
----

_init ==
    /\ signalled = _TETrace[1].signalled
    /\ out = _TETrace[1].out
    /\ sig = _TETrace[1].sig
    /\ closed = _TETrace[1].closed
    /\ base = _TETrace[1].base
    /\ pc = _TETrace[1].pc
    /\ avail = _TETrace[1].avail
    /\ decoded = _TETrace[1].decoded
    /\ tick = _TETrace[1].tick
    /\ fired = _TETrace[1].fired
----

_next ==
    /\ \E i,j \in DOMAIN _TETrace:
        /\ \/ /\ j = i + 1
              /\ i = TLCGet("level")
        /\ signalled  = _TETrace[i].signalled
        /\ signalled' = _TETrace[j].signalled
        /\ out  = _TETrace[i].out
        /\ out' = _TETrace[j].out
        /\ sig  = _TETrace[i].sig
        /\ sig' = _TETrace[j].sig
        /\ closed  = _TETrace[i].closed
        /\ closed' = _TETrace[j].closed
        /\ base  = _TETrace[i].base
        /\ base' = _TETrace[j].base
        /\ pc  = _TETrace[i].pc
        /\ pc' = _TETrace[j].pc
        /\ avail  = _TETrace[i].avail
        /\ avail' = _TETrace[j].avail
        /\ decoded  = _TETrace[i].decoded
        /\ decoded' = _TETrace[j].decoded
        /\ tick  = _TETrace[i].tick
        /\ tick' = _TETrace[j].tick
        /\ fired  = _TETrace[i].fired
        /\ fired' = _TETrace[j].fired

\* Uncomment the ASSUME below to write the states of the error trace
\* to the given file in Json format. Note that you can pass any tuple
\* to `JsonSerialize`. For example, a sub-sequence of _TETrace.
    \* ASSUME
    \*     LET J == INSTANCE Json
    \*         IN J!JsonSerialize("MCReportLoop_TTrace_1790577650.json", _TETrace)

=============================================================================

 Note that you can extract this module `MCReportLoop_TEExpression`
  to a dedicated file to reuse `expression` (the module in the 
  dedicated `MCReportLoop_TEExpression.tla` file takes precedence 
  over the module `MCReportLoop_TEExpression` below).

---- MODULE MCReportLoop_TEExpression ----
EXTENDS Sequences, TLCExt, Toolbox, MCReportLoop, Naturals, TLC

expression == 
    [
        \* To hide variables of the `MCReportLoop` spec from the error trace,
        \* remove the variables below.  The trace will be written in the order
        \* of the fields of this record.
        signalled |-> signalled
        ,out |-> out
        ,sig |-> sig
        ,closed |-> closed
        ,base |-> base
        ,pc |-> pc
        ,avail |-> avail
        ,decoded |-> decoded
        ,tick |-> tick
        ,fired |-> fired
        
        \* Put additional constant-, state-, and action-level expressions here:
        \* ,_stateNumber |-> _TEPosition
        \* ,_signalledUnchanged |-> signalled = signalled'
        
        \* Format the `signalled` variable as Json value.
        \* ,_signalledJson |->
        \*     LET J == INSTANCE Json
        \*     IN J!ToJson(signalled)
        
        \* Lastly, you may build expressions over arbitrary sets of states by
        \* leveraging the _TETrace operator.  For example, this is how to
        \* count the number of times a spec variable changed up to the current
        \* state in the trace.
        \* ,_signalledModCount |->
        \*     LET F[s \in DOMAIN _TETrace] ==
        \*         IF s = 1 THEN 0
        \*         ELSE IF _TETrace[s].signalled # _TETrace[s-1].signalled
        \*             THEN 1 + F[s-1] ELSE F[s-1]
        \*     IN F[_TEPosition - 1]
    ]

=============================================================================



Parsing and semantic processing can take forever if the trace below is long.
 In this case, it is advised to uncomment the module below to deserialize the
 trace from a generated binary file.

\*
\*---- MODULE MCReportLoop_TETrace ----
\*EXTENDS IOUtils, MCReportLoop, TLC
\*
\*trace == IODeserialize("MCReportLoop_TTrace_1790577650.bin", TRUE)
\*
\*=============================================================================
\*

---- MODULE MCReportLoop_TETrace ----
EXTENDS MCReportLoop, TLC

trace == 
    <<
    ([sig |-> FALSE,fired |-> 0,avail |-> 0,pc |-> "select",closed |-> FALSE,decoded |-> 0,signalled |-> FALSE,tick |-> FALSE,out |-> <<>>,base |-> 0]),
    ([sig |-> FALSE,fired |-> 0,avail |-> 1,pc |-> "select",closed |-> FALSE,decoded |-> 0,signalled |-> FALSE,tick |-> FALSE,out |-> <<>>,base |-> 0]),
    ([sig |-> FALSE,fired |-> 0,avail |-> 1,pc |-> "decoding",closed |-> FALSE,decoded |-> 0,signalled |-> FALSE,tick |-> FALSE,out |-> <<>>,base |-> 0]),
    ([sig |-> FALSE,fired |-> 1,avail |-> 1,pc |-> "decoding",closed |-> FALSE,decoded |-> 0,signalled |-> FALSE,tick |-> TRUE,out |-> <<>>,base |-> 0]),
    ([sig |-> FALSE,fired |-> 1,avail |-> 1,pc |-> "select",closed |-> FALSE,decoded |-> 1,signalled |-> FALSE,tick |-> TRUE,out |-> <<>>,base |-> 0]),
    ([sig |-> FALSE,fired |-> 1,avail |-> 1,pc |-> "select",closed |-> FALSE,decoded |-> 1,signalled |-> FALSE,tick |-> FALSE,out |-> <<[from |-> 0, to |-> 1]>>,base |-> 1]),
    ([sig |-> FALSE,fired |-> 2,avail |-> 1,pc |-> "select",closed |-> FALSE,decoded |-> 1,signalled |-> FALSE,tick |-> TRUE,out |-> <<[from |-> 0, to |-> 1]>>,base |-> 1]),
    ([sig |-> FALSE,fired |-> 2,avail |-> 1,pc |-> "select",closed |-> FALSE,decoded |-> 1,signalled |-> FALSE,tick |-> FALSE,out |-> <<[from |-> 0, to |-> 1], [from |-> 1, to |-> 1]>>,base |-> 1])
    >>
----


=============================================================================

---- CONFIG MCReportLoop_TTrace_1790577650 ----
CONSTANTS
    N = 3
    MaxTicks = 2
    Windowed = TRUE

INVARIANT
    _inv

CHECK_DEADLOCK
    \* CHECK_DEADLOCK off because of PROPERTY or INVARIANT above.
    FALSE

INIT
    _init

NEXT
    _next

CONSTANT
    _TETrace <- _trace

ALIAS
    _expression
=============================================================================
\* Generated on Mon Sep 28 06:40:50 UTC 2026