---------------------------- MODULE DispatchTrace ----------------------------
(* Trace specification for the program's entry point: one event Run{args, got} per run of the real binary (empty standard *)
(* input); got = [kind, exit, usage, cmd] as the driver read them off the exit status and the two output streams.         *)
EXTENDS Integers, Sequences, FiniteSets, TLC, TraceKit
D == INSTANCE Dispatch
VARIABLES l
TInit == InitHighWater /\ l = 1
TReset == IsEv(l, "Reset") /\ l' = l + 1
TRun == IsEv(l, "Run") /\ Ev(l).got = D!Outcome(Ev(l).args) /\ l' = l + 1
TNext == TReset \/ TRun
TSpec == TInit /\ [][TNext]_<<l>>
HW == HighWater(l)
=============================================================================
