----------------------------- MODULE ReportLoop -----------------------------
(***************************************************************************)
(* The loop of the report command (report.go:129-157).                     *)
(*                                                                         *)
(*   decode: for { select {                                                *)
(*             case <-sigch:  break decode                                 *)
(*             case <-ticks:  clear; Close; Report        (-every > 0)     *)
(*             default:       Decode one result (blocks on a slow input),  *)
(*                            EOF -> break decode, error -> return it,     *)
(*                            Add                                          *)
(*           } }                                                           *)
(*           Close; Report                                                 *)
(*                                                                         *)
(* The input is a stream of N results that arrives in bursts (a pipe from  *)
(* a running attack).  A tick or a signal is served only between two       *)
(* decodes: while Decode is blocked on the input nothing is printed.  The  *)
(* ticker's channel holds one tick; further ticks are dropped.             *)
(*                                                                         *)
(* What a user relies on                                                   *)
(*   Monotone     every report describes a prefix of the input, and the    *)
(*                prefixes grow                                            *)
(*   FinalWhole   without a signal (and without a decode error) the last   *)
(*                report describes the whole input                         *)
(*   AlwaysFinal  the command never ends without a last report (a signal   *)
(*                ends it with the report of what was read so far)         *)
(*   Terminates   once the input has ended the command returns             *)
(*                                                                         *)
(* Variant (a configuration that must fail): Windowed = TRUE models a      *)
(* report loop that starts a fresh report after every tick, so that the    *)
(* last report describes only the last window.                             *)
(***************************************************************************)
EXTENDS Integers, Sequences, FiniteSets

CONSTANTS N,          \* results in the input
          MaxTicks,   \* ticks that fire during the run (bounds the model)
          Windowed    \* sensitivity variant

VARIABLES avail,      \* results written to the pipe so far
          closed,     \* the writer has closed the pipe
          decoded,    \* results read by the loop
          base,       \* first result covered by the running report (0 unless Windowed)
          tick,       \* a tick is waiting in the ticker's channel
          fired,      \* ticks fired so far
          sig,        \* a signal is waiting in the signal channel
          signalled,  \* a signal was ever sent
          pc,         \* "select" | "decoding" | "final" | "done"
          out         \* the reports written: sequence of [from, to] (covers results from+1..to)
vars == <<avail, closed, decoded, base, tick, fired, sig, signalled, pc, out>>

Init == /\ avail = 0 /\ closed = FALSE /\ decoded = 0 /\ base = 0
        /\ tick = FALSE /\ fired = 0 /\ sig = FALSE /\ signalled = FALSE
        /\ pc = "select" /\ out = <<>>

(*------------------------------ environment ------------------------------*)
Write == /\ ~closed /\ avail < N /\ avail' = avail + 1
         /\ UNCHANGED <<closed, decoded, base, tick, fired, sig, signalled, pc, out>>
CloseInput == /\ ~closed /\ avail = N /\ closed' = TRUE
              /\ UNCHANGED <<avail, decoded, base, tick, fired, sig, signalled, pc, out>>
Fire == /\ fired < MaxTicks /\ pc # "done" /\ fired' = fired + 1 /\ tick' = TRUE      \* a second tick into a full channel is dropped
        /\ UNCHANGED <<avail, closed, decoded, base, sig, signalled, pc, out>>
Signal == /\ ~signalled /\ pc # "done" /\ sig' = TRUE /\ signalled' = TRUE
          /\ UNCHANGED <<avail, closed, decoded, base, tick, fired, pc, out>>

(*-------------------------------- the loop --------------------------------*)
\* select: a ready channel wins over default; among ready channels any may be taken
TakeSignal == /\ pc = "select" /\ sig /\ sig' = FALSE /\ pc' = "final"
              /\ UNCHANGED <<avail, closed, decoded, base, tick, fired, signalled, out>>
TakeTick == /\ pc = "select" /\ tick /\ tick' = FALSE
            /\ out' = Append(out, [from |-> base, to |-> decoded])
            /\ base' = IF Windowed THEN decoded ELSE base
            /\ UNCHANGED <<avail, closed, decoded, fired, sig, signalled, pc>>
TakeDefault == /\ pc = "select" /\ ~sig /\ ~tick /\ pc' = "decoding"
               /\ UNCHANGED <<avail, closed, decoded, base, tick, fired, sig, signalled, out>>
\* Decode returns a result as soon as one is available, EOF once the pipe is closed and drained; otherwise it blocks
DecodeResult == /\ pc = "decoding" /\ decoded < avail /\ decoded' = decoded + 1 /\ pc' = "select"
                /\ UNCHANGED <<avail, closed, base, tick, fired, sig, signalled, out>>
DecodeEOF == /\ pc = "decoding" /\ decoded = avail /\ closed /\ pc' = "final"
             /\ UNCHANGED <<avail, closed, decoded, base, tick, fired, sig, signalled, out>>
Final == /\ pc = "final" /\ out' = Append(out, [from |-> base, to |-> decoded]) /\ pc' = "done"
         /\ UNCHANGED <<avail, closed, decoded, base, tick, fired, sig, signalled>>

Env == Write \/ CloseInput \/ Fire \/ Signal
Loop == TakeSignal \/ TakeTick \/ TakeDefault \/ DecodeResult \/ DecodeEOF \/ Final
Next == Env \/ Loop
Spec == Init /\ [][Next]_vars
FairSpec == Spec /\ WF_vars(Loop) /\ WF_vars(Write) /\ WF_vars(CloseInput)

(*------------------------------- properties -------------------------------*)
TypeOK == /\ avail \in 0..N /\ decoded \in 0..avail /\ base \in 0..decoded
          /\ pc \in {"select", "decoding", "final", "done"}
          /\ fired \in 0..MaxTicks

Monotone == \A i \in 1..Len(out) :
               /\ out[i].from = 0                                  \* every report starts at the first result
               /\ out[i].to \in 0..N
               /\ (i > 1 => out[i - 1].to <= out[i].to)
FinalWhole == (pc = "done" /\ ~signalled) => (out # <<>> /\ out[Len(out)].to = N)
AlwaysFinal == pc = "done" => (out # <<>> /\ out[Len(out)].to = decoded)
Terminates == <>(pc = "done")

\* the contract on its own, for the trace specification: reports(ks) is acceptable for an input of n results
ContractOK(ks, n, wasSignalled, err) ==
    /\ \A i \in 1..Len(ks) : ks[i] \in 0..n /\ (i > 1 => ks[i - 1] <= ks[i])
    /\ (err = "" => Len(ks) >= 1)
    /\ (err = "" /\ ~wasSignalled => ks[Len(ks)] = n)
=============================================================================
