---- MODULE MCCmdLoop_TTrace_1790585810 ----
EXTENDS Sequences, TLCExt, MCCmdLoop, Toolbox, Naturals, TLC

_expression ==
    LET MCCmdLoop_TEExpression == INSTANCE MCCmdLoop_TEExpression
    IN MCCmdLoop_TEExpression!expression
----

_trace ==
    LET MCCmdLoop_TETrace == INSTANCE MCCmdLoop_TETrace
    IN MCCmdLoop_TETrace!trace
----

_inv ==
    ~(
        TLCGet("level") = Len(_TETrace)
        /\
        sig = (FALSE)
        /\
        avail = (1)
        /\
        pc = ("done")
        /\
        held = (FALSE)
        /\
        closed = (FALSE)
        /\
        decoded = (1)
        /\
        signalled = (TRUE)
        /\
        written = (0)
    )
----

_init ==
    /\ signalled = _TETrace[1].signalled
    /\ sig = _TETrace[1].sig
    /\ held = _TETrace[1].held
    /\ closed = _TETrace[1].closed
    /\ pc = _TETrace[1].pc
    /\ written = _TETrace[1].written
    /\ avail = _TETrace[1].avail
    /\ decoded = _TETrace[1].decoded
----

_next ==
    /\ \E i,j \in DOMAIN _TETrace:
        /\ \/ /\ j = i + 1
              /\ i = TLCGet("level")
        /\ signalled  = _TETrace[i].signalled
        /\ signalled' = _TETrace[j].signalled
        /\ sig  = _TETrace[i].sig
        /\ sig' = _TETrace[j].sig
        /\ held  = _TETrace[i].held
        /\ held' = _TETrace[j].held
        /\ closed  = _TETrace[i].closed
        /\ closed' = _TETrace[j].closed
        /\ pc  = _TETrace[i].pc
        /\ pc' = _TETrace[j].pc
        /\ written  = _TETrace[i].written
        /\ written' = _TETrace[j].written
        /\ avail  = _TETrace[i].avail
        /\ avail' = _TETrace[j].avail
        /\ decoded  = _TETrace[i].decoded
        /\ decoded' = _TETrace[j].decoded

\* Uncomment the ASSUME below to write the states of the error trace
\* to the given file in Json format. Note that you can pass any tuple
\* to `JsonSerialize`. For example, a sub-sequence of _TETrace.
    \* ASSUME
    \*     LET J == INSTANCE Json
    \*         IN J!JsonSerialize("MCCmdLoop_TTrace_1790585810.json", _TETrace)

=============================================================================

 Note that you can extract this module `MCCmdLoop_TEExpression`
  to a dedicated file to reuse `expression` (the module in the 
  dedicated `MCCmdLoop_TEExpression.tla` file takes precedence 
  over the module `MCCmdLoop_TEExpression` below).

---- MODULE MCCmdLoop_TEExpression ----
EXTENDS Sequences, TLCExt, MCCmdLoop, Toolbox, Naturals, TLC

expression == 
    [
        \* To hide variables of the `MCCmdLoop` spec from the error trace,
        \* remove the variables below.  The trace will be written in the order
        \* of the fields of this record.
        signalled |-> signalled
        ,sig |-> sig
        ,held |-> held
        ,closed |-> closed
        ,pc |-> pc
        ,written |-> written
        ,avail |-> avail
        ,decoded |-> decoded
        
        \* Put additional constant-, state-, and action-level expressions here:
        \* ,_stateNumber |-> _TEPosition
        \* ,_signalledUnchanged |-> signalled = signalled'
        
        \* Format the `signalled` variable as Json value.
        \* ,_signalledJson |->
        \*     LET J == INSTANCE Json
        \*     IN J!ToJson(signalled)
        
        \* Lastly, you may build expressions over arbitrary sets of states by
        \* leveraging the _TETrace operator.  For example, this is how to
        \* count the number of times a spec variable changed up to the current
        \* state in the trace.
        \* ,_signalledModCount |->
        \*     LET F[s \in DOMAIN _TETrace] ==
        \*         IF s = 1 THEN 0
        \*         ELSE IF _TETrace[s].signalled # _TETrace[s-1].signalled
        \*             THEN 1 + F[s-1] ELSE F[s-1]
        \*     IN F[_TEPosition - 1]
    ]

=============================================================================



Parsing and semantic processing can take forever if the trace below is long.
 In this case, it is advised to uncomment the module below to deserialize the
 trace from a generated binary file.

\*
\*---- MODULE MCCmdLoop_TETrace ----
\*EXTENDS IOUtils, MCCmdLoop, TLC
\*
\*trace == IODeserialize("MCCmdLoop_TTrace_1790585810.bin", TRUE)
\*
\*=============================================================================
\*

---- MODULE MCCmdLoop_TETrace ----
EXTENDS MCCmdLoop, TLC

trace == 
    <<
    ([sig |-> FALSE,avail |-> 0,pc |-> "select",held |-> FALSE,closed |-> FALSE,decoded |-> 0,signalled |-> FALSE,written |-> 0]),
    ([sig |-> FALSE,avail |-> 1,pc |-> "select",held |-> FALSE,closed |-> FALSE,decoded |-> 0,signalled |-> FALSE,written |-> 0]),
    ([sig |-> FALSE,avail |-> 1,pc |-> "decoding",held |-> FALSE,closed |-> FALSE,decoded |-> 0,signalled |-> FALSE,written |-> 0]),
    ([sig |-> TRUE,avail |-> 1,pc |-> "decoding",held |-> FALSE,closed |-> FALSE,decoded |-> 0,signalled |-> TRUE,written |-> 0]),
    ([sig |-> TRUE,avail |-> 1,pc |-> "handle",held |-> TRUE,closed |-> FALSE,decoded |-> 1,signalled |-> TRUE,written |-> 0]),
    ([sig |-> FALSE,avail |-> 1,pc |-> "done",held |-> FALSE,closed |-> FALSE,decoded |-> 1,signalled |-> TRUE,written |-> 0])
    >>
----


=============================================================================

---- CONFIG MCCmdLoop_TTrace_1790585810 ----
CONSTANTS
    N = 3
    Kind = "encode"
    SigAfterDecode = TRUE

INVARIANT
    _inv

CHECK_DEADLOCK
    \* CHECK_DEADLOCK off because of PROPERTY or INVARIANT above.
    FALSE

INIT
    _init

NEXT
    _next

CONSTANT
    _TETrace <- _trace

ALIAS
    _expression
=============================================================================
\* Generated on Mon Sep 28 08:56:51 UTC 2026