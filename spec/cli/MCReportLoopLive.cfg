CONSTANTS N = 3  MaxTicks = 2  Windowed = FALSE
SPECIFICATION FairSpec
PROPERTY Terminates
CHECK_DEADLOCK FALSE
