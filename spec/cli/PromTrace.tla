----------------------------- MODULE PromTrace -----------------------------
(***************************************************************************)
(* Trace specification for C20: Observe{...} events (values as BigNat:     *)
(* bytes, latency in ns) followed by Gather{...} = the metric families     *)
(* gathered from the real registry, flattened by the driver:               *)
(*   counters: [{name, method, url, status, message, value}]   value BigNat*)
(*   hists:    [{method, url, status, count, sum (ns, rounded), buckets}]  *)
(* Observations may come from concurrent goroutines: they commute, so the  *)
(* log order is as good as any (only Gather is compared).                  *)
(***************************************************************************)
EXTENDS Integers, Sequences, FiniteSets, TLC, TraceKit

B == INSTANCE BigNat
BPlus(a, b) == B!Add(a, b)
BLeq(a, b) == B!Le(a, b)

\* prometheus.DefBuckets in nanoseconds
DefBounds == << B!FromNat(5000000), B!FromNat(10000000), B!FromNat(25000000), B!FromNat(50000000), B!FromNat(100000000),
                B!FromNat(250000000), B!FromNat(500000000), B!FromNat(1000000000), <<0, 0, 25>>, <<0, 0, 50>>, <<0, 0, 100>> >>

VARIABLES base, fails, history, l
P == INSTANCE Prom WITH Plus <- BPlus, Leq <- BLeq, Zero <- << >>, Bounds <- DefBounds, IncFail <- TRUE
vars == <<base, fails, history, l>>

TInit == InitHighWater /\ P!PInit /\ l = 1
TReset == IsEv(l, "Reset") /\ base' = << >> /\ fails' = << >> /\ history' = << >> /\ l' = l + 1

TObserve == /\ IsEv(l, "Observe")
            /\ LET e == Ev(l)
                   r == [method |-> e.method, url |-> e.url, code |-> e.code, err |-> e.err, bin |-> e.bin, bout |-> e.bout, lat |-> e.lat]
               IN /\ base' = P!ObserveStep(base, fails, r).base
                  /\ fails' = P!ObserveStep(base, fails, r).fails
            /\ history' = <<Len(history) + 1>>
            /\ l' = l + 1

S12 == <<0, 0, 0, 1>>
AbsDiff(p, q) == IF B!Lt(p, q) THEN B!Sub(q, p) ELSE B!Sub(p, q)

TGather ==
    /\ IsEv(l, "Gather")
    /\ LET e == Ev(l)
           cnt(name) == SelectSeq(e.counters, LAMBDA c : c.name = name)
           keyOf(c) == <<c.method, c.url, c.status>>
       IN
       \* bytes in / out: one series per label set, equal to the sums
       /\ \A name \in {"request_bytes_in", "request_bytes_out"} :
            /\ {keyOf(cnt(name)[i]) : i \in 1..Len(cnt(name))} = DOMAIN base
            /\ Len(cnt(name)) = Cardinality(DOMAIN base)
            /\ \A i \in 1..Len(cnt(name)) :
                 cnt(name)[i].value = (IF name = "request_bytes_in" THEN base[keyOf(cnt(name)[i])].bin ELSE base[keyOf(cnt(name)[i])].bout)
       \* failures: one series per (label set, message) that failed, equal to the number of such results
       /\ LET fc == cnt("request_fail_count") IN
            /\ {<<fc[i].method, fc[i].url, fc[i].status, fc[i].message>> : i \in 1..Len(fc)} = DOMAIN fails
            /\ Len(fc) = Cardinality(DOMAIN fails)
            /\ \A i \in 1..Len(fc) : fc[i].value = B!FromNat(fails[<<fc[i].method, fc[i].url, fc[i].status, fc[i].message>>])
       \* latency histogram: count, sum (1 ns per sample + 1e-12 relative), cumulative buckets
       /\ {keyOf(e.hists[i]) : i \in 1..Len(e.hists)} = DOMAIN base
       /\ Len(e.hists) = Cardinality(DOMAIN base)
       /\ \A i \in 1..Len(e.hists) :
            LET h == e.hists[i]
                b == base[keyOf(h)]
            IN /\ h.count = b.n
               /\ h.buckets = b.buckets
               /\ B!Le(B!Mul(S12, AbsDiff(h.sum, b.sum)), B!Add(B!Mul(S12, B!FromNat(b.n)), b.sum))
    /\ l' = l + 1
    /\ UNCHANGED <<base, fails, history>>

TNext == TReset \/ TObserve \/ TGather
TSpec == TInit /\ [][TNext]_vars
HW == HighWater(l)
=============================================================================
