--------------------------- MODULE AttackCmdTrace ---------------------------
(* Trace specification for the attack command end to end: one event Run{c, o} per case run through the real command. *)
EXTENDS Integers, Sequences, FiniteSets, TLC, TraceKit
A == INSTANCE AttackCmd
VARIABLES l, for        \* for = the check that is asking (the Reset event says)
TInit == InitHighWater /\ l = 1 /\ for = "ACMD"
TReset == IsEv(l, "Reset") /\ for' = Ev(l).for /\ l' = l + 1
TRun == IsEv(l, "Run") /\ A!CmdOKFor(Ev(l).c, Ev(l).o, for) /\ l' = l + 1 /\ UNCHANGED for
TNext == TReset \/ TRun
TSpec == TInit /\ [][TNext]_<<l, for>>
HW == HighWater(l)
=============================================================================
