--------------------------- MODULE AttackCmdTrace ---------------------------
(* Trace specification for the attack command end to end: one event Run{c, o} per case run through the real command. *)
EXTENDS Integers, Sequences, FiniteSets, TLC, TraceKit
A == INSTANCE AttackCmd
VARIABLES l
TInit == InitHighWater /\ l = 1
TReset == IsEv(l, "Reset") /\ l' = l + 1
TRun == IsEv(l, "Run") /\ A!CmdOK(Ev(l).c, Ev(l).o) /\ l' = l + 1
TNext == TReset \/ TRun
TSpec == TInit /\ [][TNext]_<<l>>
HW == HighWater(l)
=============================================================================
