CONSTANTS
  MaxObs = 3
  IncFail = FALSE
SPECIFICATION Spec
INVARIANT Matches
CHECK_DEADLOCK FALSE
