-------------------------------- MODULE Flags --------------------------------
(***************************************************************************)
(* C19 - command-line values mean what the manual says (README.md "-rate", *)
(* "-header", "-max-body", "-connect-to", "-dns-ttl", "-resolvers").       *)
(* The documented meaning is a function of the TOKEN STRUCTURE from which  *)
(* the harness builds the flag text; TLC enumerates the structures (Cases),*)
(* the harness renders each one as text, applies flag.Value.Set through    *)
(* the in-process driver of package main, and reports what was stored,     *)
(* projected on the unit the case names (value div unit, value mod unit).  *)
(***************************************************************************)
EXTENDS Integers, Sequences, FiniteSets, TLC

(*---------------------------------- -rate ----------------------------------*)
Units == {"ns", "us", "µs", "ms", "s", "m", "h"}

\* shape "n"      : N            -> N per 1 s
\* shape "n/u"    : N/unit       -> N per 1 unit
\* shape "n/mu"   : N/<M><unit>  -> N per M units
\* shape "inf"    : infinity     -> unlimited
\* malformed shapes are rejected
\* shape "n/du"   : N/<duration> -> N per that duration, for durations written as Go writes and reads them: a decimal
\*                  fraction of a unit (with or without the leading zero) or several units in a row; the case names the
\*                  duration both as text and as M of a smaller unit
\* shape "0n/mu"  : the frequency written with leading zeros (decimal all the same)
RateShapes == {"n", "n/u", "n/mu", "n/du", "0n/mu", "inf"}
Durations == {[dur |-> "0.5s", m |-> 500, unit |-> "ms"], [dur |-> ".5s", m |-> 500, unit |-> "ms"], [dur |-> "1.5s", m |-> 1500, unit |-> "ms"],
              [dur |-> "1m30s", m |-> 90, unit |-> "s"], [dur |-> ".25m", m |-> 15, unit |-> "s"], [dur |-> "1.5ms", m |-> 1500, unit |-> "us"],
              [dur |-> "1h0m0.5s", m |-> 3600500, unit |-> "ms"], [dur |-> "0.001ms", m |-> 1, unit |-> "us"], [dur |-> "2.5h", m |-> 150, unit |-> "m"],
              [dur |-> "1s500ms", m |-> 1500, unit |-> "ms"], [dur |-> "+2s", m |-> 2, unit |-> "s"], [dur |-> "010s", m |-> 10, unit |-> "s"]}
BadShapes == {"empty", "n/", "/u", "word", "frac", "n/badunit", "n/mu-trailing", "n/u/u"}

Ns == {0, 1, 7, 50, 1000, 2000000000}
Ms == {1, 3, 90}

RateCases ==
    {[shape |-> "n", n |-> n, m |-> 1, unit |-> "s"] : n \in Ns}
    \cup {[shape |-> "n/u", n |-> n, m |-> 1, unit |-> u] : n \in Ns, u \in Units}
    \cup {[shape |-> "n/mu", n |-> n, m |-> m, unit |-> u] : n \in Ns, m \in Ms, u \in Units}
    \cup {[shape |-> "n/du", n |-> n, m |-> d.m, unit |-> d.unit, dur |-> d.dur] : n \in {1, 7, 1000}, d \in Durations}
    \cup {[shape |-> "0n/mu", n |-> n, m |-> m, unit |-> u] : n \in {7, 50, 1000}, m \in {1, 3}, u \in {"s", "m"}}
    \cup {[shape |-> "inf", n |-> 0, m |-> 1, unit |-> "s"]}
    \cup {[shape |-> sh, n |-> 5, m |-> 2, unit |-> "s"] : sh \in BadShapes}

Unlimited(c) == c.shape = "inf" \/ (c.shape \in RateShapes /\ c.n = 0)
Accepted(c) == c.shape \in RateShapes

\* what Set must store for an accepted, limited rate: Freq = n, Per = m units (reported as per_div units, per_mod rest)
RateStoredOK(c, o) ==
    IF ~Accepted(c) THEN o.set_err # ""
    ELSE /\ o.set_err = ""
         /\ IF Unlimited(c)
            THEN /\ (o.freq = 0 \/ o.st_per = "0")                        \* the zero value every pacer treats as unlimited
                 /\ o.guard_without_maxworkers = TRUE                      \* ... and refuses without -max-workers
                 /\ o.guard_with_maxworkers = FALSE
            ELSE /\ o.freq = c.n /\ o.per_div = c.m /\ o.per_mod = 0
                 /\ o.guard_without_maxworkers = FALSE
         \* the printed form parses back to the same rate (two unlimited rates are the same rate)
         /\ o.rt_err = "" /\ (IF Unlimited(c) THEN o.rt_freq = "0" ELSE o.rt_freq = o.st_freq /\ o.rt_per = o.st_per)

(*--------------------------------- -header ---------------------------------*)
\* tokens: sequence of [key, value]; the flag accumulates values per key, key case preserved
RECURSIVE HeaderValues(_, _)
HeaderValues(toks, key) ==
    IF toks = << >> THEN << >>
    ELSE (IF Head(toks).key = key THEN <<Head(toks).value>> ELSE << >>) \o HeaderValues(Tail(toks), key)
HeaderExpected(toks) == [k \in {toks[i].key : i \in 1..Len(toks)} |-> HeaderValues(toks, k)]

(*-------------------------------- -max-body --------------------------------*)
\* case [n, unit]: unit "" (bytes), "K", "M", "G", "T", "P" in any documented spelling; or the literal -1
SizeUnits == {"", "K", "M", "G", "T", "P"}

(*------------------------------- -connect-to -------------------------------*)
\* tuples [src, dst]; repeated sources append their destinations in order
RECURSIVE Dests(_, _)
Dests(tups, src) ==
    IF tups = << >> THEN << >>
    ELSE (IF Head(tups).src = src THEN <<Head(tups).dst>> ELSE << >>) \o Dests(Tail(tups), src)
ConnectExpected(tups) == [s \in {tups[i].src : i \in 1..Len(tups)} |-> Dests(tups, s)]

(*-------------------------------- -resolvers -------------------------------*)
\* addresses [ip, port] with port 0 = not given: normalised to ip:port with port 53 by default
NormPort(a) == IF a.port = 0 THEN 53 ELSE a.port
=============================================================================
