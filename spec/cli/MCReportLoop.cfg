CONSTANTS N = 4  MaxTicks = 3  Windowed = FALSE
SPECIFICATION Spec
INVARIANTS TypeOK Monotone FinalWhole AlwaysFinal
CHECK_DEADLOCK FALSE
