CONSTANTS N = 3  Kind = "encode"  SigAfterDecode = TRUE
SPECIFICATION Spec
INVARIANTS TypeOK DoneWritesAll
CHECK_DEADLOCK FALSE
