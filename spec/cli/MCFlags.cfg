INIT Init
NEXT Next
