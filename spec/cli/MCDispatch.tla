----------------------------- MODULE MCDispatch -----------------------------
EXTENDS Dispatch, Json, IOUtils, SequencesExt
ASSUME Export == IF "CASES_OUT" \in DOMAIN IOEnv THEN ndJsonSerialize(IOEnv.CASES_OUT, SetToSeq(Cases)) ELSE TRUE
ASSUME VersionWins
ASSUME ExitCodes
ASSUME RunsOnlyKnown
VARIABLE x
Init == x = 0
Next == x' = x
=============================================================================
