INIT Init
NEXT Next
