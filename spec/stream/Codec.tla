------------------------------- MODULE Codec -------------------------------
(***************************************************************************)
(* C07 - the documented layout of encoded results, as constants.           *)
(* Source: README.md ("vegeta encode": the twelve CSV columns, the JSON    *)
(* example) and encode.go's usage text.  A record is rendered by the       *)
(* harness as a TLA+ record field name -> canonical string (by reflection  *)
(* over vegeta.Result, so a field added later appears automatically):      *)
(*   integers in decimal, Timestamp as decimal Unix nanoseconds, Latency   *)
(*   as decimal nanoseconds, Body in lower-case hex, Headers as the sorted *)
(*   list of "Key: value" strings.                                         *)
(***************************************************************************)
EXTENDS Integers, Sequences, FiniteSets

\* CSV: twelve columns, in this order and units
CSVLayout == <<"Timestamp", "Code", "Latency", "BytesOut", "BytesIn", "Error", "Body",
               "Attack", "Seq", "Method", "URL", "Headers">>

\* JSON: documented field names
JSONNames == [Attack |-> "attack", Seq |-> "seq", Code |-> "code", Timestamp |-> "timestamp",
              Latency |-> "latency", BytesOut |-> "bytes_out", BytesIn |-> "bytes_in", Error |-> "error",
              Body |-> "body", Method |-> "method", URL |-> "url", Headers |-> "headers"]

Fields == DOMAIN JSONNames

LayoutCoversFields == {CSVLayout[i] : i \in 1..Len(CSVLayout)} = Fields /\ Len(CSVLayout) = Cardinality(Fields)

\* what an independent reader of the CSV layout must find in the columns of record r
CSVAgrees(cols, r) ==
    /\ Len(cols) = Len(CSVLayout)
    /\ \A i \in 1..Len(CSVLayout) : cols[i] = r[CSVLayout[i]]

\* ... and of the JSON object (obj: documented name -> canonical string)
JSONAgrees(obj, r) ==
    /\ DOMAIN obj = {JSONNames[f] : f \in Fields}
    /\ \A f \in Fields : obj[JSONNames[f]] = r[f]

\* the record has exactly the fields the documentation knows
KnownFields(r) == DOMAIN r = Fields
=============================================================================
