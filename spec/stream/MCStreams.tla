----------------------------- MODULE MCStreams -----------------------------
EXTENDS Streams

CONSTANTS MaxInputs, MaxLen, MaxTotal

VARIABLES lens, enc, first, total, mode

LenVectors == UNION {[1..k -> 0..MaxLen] : k \in 2..MaxInputs}

Init == \/ /\ mode = "rr" /\ lens \in LenVectors /\ RRInit(lens)
           /\ enc = 0 /\ first = 1 /\ total = 1 /\ DFInit
        \/ /\ mode = "df" /\ lens = <<0, 0>> /\ RRInit(lens)
           /\ enc \in 0..3 /\ total \in 1..MaxTotal /\ first \in 1..total /\ DFInit

Next == \/ (mode = "rr" /\ RRCall(lens) /\ UNCHANGED <<lens, enc, first, total, mode, trial, srcPos, bufLen, lost, final>>)
        \/ (mode = "df" /\ (DFTrial(enc, first, total) \/ DFGiveUp) /\ UNCHANGED <<lens, enc, first, total, mode, pos, rr, outRR, tailRR>>)

Spec == Init /\ [][Next]_<<lens, enc, first, total, mode, pos, rr, outRR, tailRR, trial, srcPos, bufLen, lost, final>>

RRRefines == mode = "rr" => (RRDone(lens) /\ RRPrefixOK(lens))
DFRefines == mode = "df" => (DFInvariant /\ DFCorrect(enc, total))
\* the combined decoder terminates: it reports the end once every input is exhausted
RREnds == mode = "rr" => <>(tailRR = "eof")
=============================================================================
