------------------------------ MODULE Streams ------------------------------
(***************************************************************************)
(* Result streams: contracts of C08 (auto-detection), C09 (a truncated     *)
(* stream decodes to a clean prefix) and C13 (several inputs = their       *)
(* union), and implementation-shaped models of DecoderFor (tee + replay)   *)
(* and NewRoundRobinDecoder (lib/results.go).                              *)
(*                                                                         *)
(* A stream is abstract here: records are ids, an encoded stream is a      *)
(* sequence of frames [id, start, end) over byte offsets.                  *)
(***************************************************************************)
EXTENDS Integers, Sequences, FiniteSets, TLC

(*====================== C09: truncation contract ========================*)
\* frames: sequence of [id, start, end] with start(1) = 0, end(i) = start(i+1)
\* what a decoder may return on the prefix [0, cut): exactly the complete frames, in order
CompleteIds(frames, cut) ==
    LET n == Cardinality({i \in 1..Len(frames) : frames[i].end <= cut})
    IN  [i \in 1..n |-> frames[i].id]

FramesWellFormed(frames, total) ==
    /\ Len(frames) > 0 => frames[1].start = 0 /\ frames[Len(frames)].end = total
    /\ \A i \in 1..Len(frames) : frames[i].start < frames[i].end
    /\ \A i \in 1..(Len(frames) - 1) : frames[i].end = frames[i + 1].start

\* out = the ids a decoder returned before it reported tail ("eof" or "err")
CleanPrefix(frames, cut, out, tail) ==
    /\ out = CompleteIds(frames, cut)
    /\ tail \in {"eof", "err"}
    /\ (cut = (IF Len(frames) = 0 THEN 0 ELSE frames[Len(frames)].end) => tail = "eof")   \* a whole stream ends cleanly

(*====================== C13: several inputs = union =====================*)
\* out: sequence of [f, i] (i-th record of input f); lens[f] = number of records of input f
PerInputOrder(out, lens) ==
    \A f \in 1..Len(lens) :
        LET mine == SelectSeq(out, LAMBDA x : x.f = f)
        IN  /\ Len(mine) = lens[f]
            /\ \A k \in 1..Len(mine) : mine[k].i = k
UnionContract(out, lens, tail) ==
    /\ PerInputOrder(out, lens)
    /\ \A k \in 1..Len(out) : out[k].f \in 1..Len(lens)
    /\ tail = "eof"

(*----- NewRoundRobinDecoder: seq counter, at most len(dec) attempts per call, last error -----*)
VARIABLES pos,      \* pos[f] = records already taken from input f
          rr,       \* the seq counter
          outRR,    \* what the combined decoder returned so far
          tailRR    \* "" while decoding, then the final answer

rrvars == <<pos, rr, outRR, tailRR>>

RRInit(lens) == /\ pos = [f \in 1..Len(lens) |-> 0] /\ rr = 0 /\ outRR = << >> /\ tailRR = ""

\* one call of the combined decoder: tries inputs rr, rr+1, ... (mod n), n attempts at most
RECURSIVE RRTry(_, _, _, _)
RRTry(lens, p, r, k) ==          \* k attempts left; returns [hit, f, rr]
    IF k = 0 THEN [hit |-> FALSE, f |-> 0, rr |-> r]
    ELSE LET f == (r % Len(lens)) + 1 IN
         IF p[f] < lens[f] THEN [hit |-> TRUE, f |-> f, rr |-> r + 1]
         ELSE RRTry(lens, p, r + 1, k - 1)

RRCall(lens) ==
    /\ tailRR = ""
    /\ LET t == RRTry(lens, pos, rr, Len(lens)) IN
       IF t.hit
       THEN /\ pos' = [pos EXCEPT ![t.f] = @ + 1]
            /\ outRR' = Append(outRR, [f |-> t.f, i |-> pos[t.f] + 1])
            /\ rr' = t.rr /\ UNCHANGED tailRR
       ELSE /\ tailRR' = "eof" /\ rr' = t.rr /\ UNCHANGED <<pos, outRR>>   \* every input answered io.EOF

RRDone(lens) == tailRR # "" => UnionContract(outRR, lens, tailRR)
RRPrefixOK(lens) == \A f \in 1..Len(lens) :
                        LET mine == SelectSeq(outRR, LAMBDA x : x.f = f)
                        IN  Len(mine) = pos[f] /\ \A k \in 1..Len(mine) : mine[k].i = k

(*================= C08: DecoderFor (tee and replay) ====================*)
\* The source holds `total` bytes.  Each trial decoder reads through
\* MultiReader(snapshot of buf, TeeReader(src, buf)); a trial may read ahead beyond what it needs.
\* Variants: ReplayTwice = the final decoder gets buf ++ buf ++ rest (a broken variant),
\*           DropAhead   = bytes read ahead by the successful trial are not in buf (a broken variant)
CONSTANTS ReplayTwice, DropAhead

VARIABLES trial,    \* index of the factory being tried (1 gob, 2 json, 3 csv), 4 = none matched
          srcPos,   \* bytes consumed from the source
          bufLen,   \* bytes held by the tee buffer
          lost,     \* bytes consumed from the source that are not in the buffer
          final     \* "" | "none" | the byte sequence handed to the returned decoder, as a list of source offsets

dfvars == <<trial, srcPos, bufLen, lost, final>>

DFInit == trial = 1 /\ srcPos = 0 /\ bufLen = 0 /\ lost = 0 /\ final = ""

\* a trial of factory `trial` on a stream whose true encoding is enc (1..3, or 0 = none),
\* first record of size first, total bytes total, reading `ahead` extra bytes
DFTrial(enc, first, total) ==
    /\ final = "" /\ trial <= 3
    /\ \E need \in 1..first, ahead \in 0..2 :          \* a failing trial stops after `need` bytes, a matching one needs them all
         LET want == IF trial = enc THEN first ELSE need
             upto == IF want + ahead > total THEN total ELSE want + ahead
             newSrc == IF upto > srcPos THEN upto ELSE srcPos
             teed == newSrc - srcPos
         IN /\ srcPos' = newSrc
            /\ IF DropAhead /\ trial = enc /\ newSrc > want
               THEN bufLen' = bufLen + teed - (newSrc - (IF want > srcPos THEN want ELSE srcPos)) /\ lost' = lost + (newSrc - (IF want > srcPos THEN want ELSE srcPos))
               ELSE bufLen' = bufLen + teed /\ UNCHANGED lost
            /\ IF trial = enc
               THEN final' = "decoder" /\ UNCHANGED trial
               ELSE trial' = trial + 1 /\ UNCHANGED final
DFGiveUp == /\ final = "" /\ trial = 4 /\ final' = "none" /\ UNCHANGED <<trial, srcPos, bufLen, lost>>

\* the bytes the returned decoder sees: the buffer, then the rest of the source
SeenLength(total) == (IF ReplayTwice THEN 2 * bufLen ELSE bufLen) + (total - srcPos)
\* nothing consumed while sniffing is lost or replayed twice
DFInvariant == bufLen + lost = srcPos
DFCorrect(enc, total) ==
    /\ (final = "decoder" => enc \in 1..3 /\ lost = 0 /\ SeenLength(total) = total)
    /\ (final = "none" => enc = 0)
=============================================================================
