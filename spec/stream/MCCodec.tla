------------------------------ MODULE MCCodec ------------------------------
EXTENDS Codec, TLC
ASSUME LayoutCoversFields
VARIABLE x
Init == x = 0
Next == x' = x
=============================================================================
