CONSTANTS
  MaxInputs = 4
  MaxLen = 3
  MaxTotal = 6
  ReplayTwice = FALSE
  DropAhead = TRUE
SPECIFICATION Spec
INVARIANTS RRRefines DFRefines
CHECK_DEADLOCK FALSE
