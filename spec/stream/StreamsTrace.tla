---------------------------- MODULE StreamsTrace ----------------------------
(***************************************************************************)
(* Trace specification of the result-stream family.  One Reset{kind} opens *)
(* a case of one of four kinds:                                            *)
(*  c07  Encode{id, r} / Decode{res, r} / RefRead{id, layout, cols|obj}    *)
(*       round trip through one codec and the independent layout reader    *)
(*  c08  Auto{detected, out, tail}   DecoderFor on a stream of n records   *)
(*       (or on junk), through a chunking reader; Chain{...} = the encode  *)
(*       command applied along a chain of formats                          *)
(*  c09  Cut{cut, out, tail}         decoding the prefix [0, cut)          *)
(*  c13  Multi{out, tail}            the combined decoder / the commands   *)
(*       over several files;  ReportPair{single, multi}                    *)
(* Records are renderings (c07) or ids assigned by the driver after it     *)
(* matched a decoded result with an original (a non-match is id 0).        *)
(***************************************************************************)
EXTENDS Integers, Sequences, FiniteSets, TLC, TraceKit

VARIABLES kind, hdr, orig, ndec, l

\* the implementation-shaped variables of Streams.tla are not used by the trace spec
S == INSTANCE Streams WITH ReplayTwice <- FALSE, DropAhead <- FALSE,
        pos <- << >>, rr <- 0, outRR <- << >>, tailRR <- "",
        trial <- 0, srcPos <- 0, bufLen <- 0, lost <- 0, final <- ""
C == INSTANCE Codec

vars == <<kind, hdr, orig, ndec, l>>

TInit == InitHighWater /\ kind = "" /\ hdr = [kind |-> ""] /\ orig = << >> /\ ndec = 0 /\ l = 1

TReset == /\ IsEv(l, "Reset")
          /\ kind' = Ev(l).kind /\ hdr' = Ev(l) /\ orig' = << >> /\ ndec' = 0
          /\ (Ev(l).kind = "c09" => S!FramesWellFormed(Ev(l).frames, Ev(l).total))
          /\ l' = l + 1

(*--------------------------------- c07 ---------------------------------*)
TEncode == /\ IsEv(l, "Encode") /\ kind = "c07"
           /\ Ev(l).id = Len(orig) + 1
           /\ C!KnownFields(Ev(l).r)
           /\ orig' = Append(orig, Ev(l).r)
           /\ l' = l + 1 /\ UNCHANGED <<kind, hdr, ndec>>

\* decoding returns an equal sequence followed by end-of-stream
TDecode == /\ IsEv(l, "Decode") /\ kind = "c07"
           /\ IF ndec < Len(orig)
              THEN /\ Ev(l).res = "rec" /\ Ev(l).r = orig[ndec + 1]
                   \* Result.Equal, the library's notion of equality, agrees: equal to the original, unequal once one field differs
                   /\ ("equal" \in DOMAIN Ev(l) => Ev(l).equal /\ ~Ev(l).mutant_equal)
              ELSE Ev(l).res = "eof"
           /\ ndec' = ndec + 1
           /\ l' = l + 1 /\ UNCHANGED <<kind, hdr, orig>>

\* an independently written reader of the documented layout agrees field by field
TRefRead == /\ IsEv(l, "RefRead") /\ kind = "c07"
            /\ Ev(l).id \in 1..Len(orig)
            /\ IF Ev(l).layout = "csv" THEN C!CSVAgrees(Ev(l).cols, orig[Ev(l).id])
               ELSE C!JSONAgrees(Ev(l).obj, orig[Ev(l).id])
            /\ l' = l + 1 /\ UNCHANGED <<kind, hdr, orig, ndec>>

(*--------------------------------- c08 ---------------------------------*)
Ids(n) == [i \in 1..n |-> i]

TAuto == /\ IsEv(l, "Auto") /\ kind = "c08"
         /\ IF hdr.codec = "none"
            THEN Ev(l).detected = FALSE                      \* no decoder rather than a wrong one
            ELSE /\ Ev(l).detected = TRUE
                 /\ Ev(l).out = Ids(hdr.n) /\ Ev(l).tail = "eof"
         /\ l' = l + 1 /\ UNCHANGED <<kind, hdr, orig, ndec>>

\* re-encoding through any chain of formats decodes to the original sequence
TChain == /\ IsEv(l, "Chain") /\ kind = "c08"
          /\ Ev(l).err = "" /\ Ev(l).out = Ids(hdr.n) /\ Ev(l).tail = "eof"
          /\ l' = l + 1 /\ UNCHANGED <<kind, hdr, orig, ndec>>

(*--------------------------------- c09 ---------------------------------*)
TCut == /\ IsEv(l, "Cut") /\ kind = "c09"
        /\ Ev(l).cut \in 0..hdr.total
        /\ S!CleanPrefix(hdr.frames, Ev(l).cut, Ev(l).out, Ev(l).tail)
        /\ l' = l + 1 /\ UNCHANGED <<kind, hdr, orig, ndec>>

(*--------------------------------- c13 ---------------------------------*)
TMulti == /\ IsEv(l, "Multi") /\ kind = "c13"
          /\ S!UnionContract(Ev(l).out, hdr.lens, Ev(l).tail)
          /\ l' = l + 1 /\ UNCHANGED <<kind, hdr, orig, ndec>>

\* the report over the split files equals the report over their union, exact fields
TReportPair == /\ IsEv(l, "ReportPair") /\ kind = "c13"
               /\ Ev(l).err = ""
               /\ Ev(l).single = Ev(l).multi
               /\ l' = l + 1 /\ UNCHANGED <<kind, hdr, orig, ndec>>

TNext == TReset \/ TEncode \/ TDecode \/ TRefRead \/ TAuto \/ TChain \/ TCut \/ TMulti \/ TReportPair
TSpec == TInit /\ [][TNext]_vars
HW == HighWater(l)
=============================================================================
