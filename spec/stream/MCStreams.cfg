CONSTANTS
  MaxInputs = 4
  MaxLen = 3
  MaxTotal = 6
  ReplayTwice = FALSE
  DropAhead = FALSE
SPECIFICATION Spec
INVARIANTS RRRefines DFRefines
CHECK_DEADLOCK FALSE
