------------------------- MODULE TargetsContract -------------------------
(***************************************************************************)
(* C14 - reference meaning of a targets file (README "http format") and of *)
(* the default header/body merge, independent of how the parser works.     *)
(*                                                                         *)
(* A file is a sequence of lines, each a record [k, a, b]:                 *)
(*   k = "REQ"   a = method, b = URL                                       *)
(*   k = "HDR"   a = key (case preserved), b = value                       *)
(*   k = "BODY"  a = name of the body file ("@" + a), b = its content       *)
(*   k = "COM"   a comment line (starts with #)                            *)
(*   k = "BLANK" an empty line;  k = "WS"  a whitespace-only line          *)
(* Comment lines are ignored wherever they appear.  After deleting them a  *)
(* file is a sequence of blocks: a request line, then header lines, then   *)
(* optionally one body line.  A block is ended by a blank (or whitespace-  *)
(* only) line or the end of the file; a block without headers or that ends *)
(* with a body line may also be followed directly by the next request line.*)
(***************************************************************************)
EXTENDS Integers, Sequences, FiniteSets

IsBlank(ln) == ln.k \in {"BLANK", "WS"}

NotComment(ln) == ln.k # "COM"
Uncommented(lines) == SelectSeq(lines, NotComment)

\* Reference parser over the uncommented lines: state machine
\*   st = "between"  (no open block; "sep" says whether a request line may follow directly)
\*   st = "hdrs"     (inside a block, after the request line or a header)
\* Returns [ok |-> BOOLEAN, blocks |-> sequence of [req, hdrs, body]]
NoBody == [own |-> FALSE, content |-> ""]         \* the block has no body line
OwnBody(ln) == [own |-> TRUE, content |-> ln.b]   \* ... or it has one, whatever the file holds (an empty file is a body)

RECURSIVE RefParse(_, _, _, _, _)
RefParse(ls, i, st, cur, acc) ==
    IF i > Len(ls)
    THEN [ok |-> TRUE, blocks |-> IF st = "hdrs" THEN Append(acc, cur) ELSE acc]
    ELSE LET ln == ls[i] IN
      IF st = "between" THEN
         IF IsBlank(ln) THEN RefParse(ls, i + 1, "between", cur, acc)
         ELSE IF ln.k = "REQ" THEN RefParse(ls, i + 1, "hdrs", [req |-> ln, hdrs |-> << >>, body |-> NoBody], acc)
         ELSE [ok |-> FALSE, blocks |-> acc]            \* a header or body line outside a block
      ELSE \* "hdrs"
         IF IsBlank(ln) THEN RefParse(ls, i + 1, "between", cur, Append(acc, cur))
         ELSE IF ln.k = "HDR" THEN RefParse(ls, i + 1, "hdrs", [cur EXCEPT !.hdrs = Append(@, ln)], acc)
         ELSE IF ln.k = "BODY" THEN RefParse(ls, i + 1, "between", cur, Append(acc, [cur EXCEPT !.body = OwnBody(ln)]))
         ELSE \* a request line directly after the previous block: only if that block had no header
              IF cur.hdrs = << >> THEN RefParse(ls, i + 1, "hdrs", [req |-> ln, hdrs |-> << >>, body |-> NoBody], Append(acc, cur))
              ELSE [ok |-> FALSE, blocks |-> acc]

Parse(lines) == RefParse(Uncommented(lines), 1, "between", [req |-> [k |-> "", a |-> "", b |-> ""], hdrs |-> << >>, body |-> NoBody], << >>)

WellFormed(lines) == Parse(lines).ok

(*----------------------------- default merge -----------------------------*)
\* defaults: a sequence of [key, values] with distinct keys; result: function key -> sequence of values,
\* the default values first, then the target's own values in file order
Keys(defs, hdrs) == {defs[i].key : i \in 1..Len(defs)} \cup {hdrs[i].a : i \in 1..Len(hdrs)}

RECURSIVE OwnValues(_, _)
OwnValues(hdrs, key) ==
    IF hdrs = << >> THEN << >>
    ELSE (IF Head(hdrs).a = key THEN <<Head(hdrs).b>> ELSE << >>) \o OwnValues(Tail(hdrs), key)

DefaultValues(defs, key) ==
    IF \E i \in 1..Len(defs) : defs[i].key = key
    THEN defs[CHOOSE i \in 1..Len(defs) : defs[i].key = key].values
    ELSE << >>

MergedHeader(defs, hdrs) ==
    [key \in Keys(defs, hdrs) |-> DefaultValues(defs, key) \o OwnValues(hdrs, key)]

\* the target a block describes, given the command-line defaults (defBody = content of the default body, "" if none)
TargetOf(blk, defs, defBody) ==
    [method |-> blk.req.a, url |-> blk.req.b,
     header |-> MergedHeader(defs, blk.hdrs),
     body   |-> IF blk.body.own THEN blk.body.content ELSE defBody]     \* the default body only when the target has none

ExpectedTargets(lines, defs, defBody) ==
    LET bs == Parse(lines).blocks IN [i \in 1..Len(bs) |-> TargetOf(bs[i], defs, defBody)]

(*------------------------------ JSON format ------------------------------*)
\* one object per line [k |-> "OBJ", a |-> method, b |-> url, hdr |-> sequence of [key, values], body |-> content];
\* empty and whitespace-only lines are skipped.  Merge: default values first, the default body only when the
\* target has none.
IsObj(ln) == ln.k = "OBJ"

OwnJSON(hdr, key) ==
    IF \E i \in 1..Len(hdr) : hdr[i].key = key
    THEN hdr[CHOOSE i \in 1..Len(hdr) : hdr[i].key = key].values
    ELSE << >>

TargetOfJSON(ln, defs, defBody) ==
    [method |-> ln.a, url |-> ln.b,
     header |-> [key \in {defs[i].key : i \in 1..Len(defs)} \cup {ln.hdr[i].key : i \in 1..Len(ln.hdr)} |->
                    DefaultValues(defs, key) \o OwnJSON(ln.hdr, key)],
     body   |-> IF ln.body = "" THEN defBody ELSE ln.body]

ExpectedJSON(lines, defs, defBody) ==
    LET os == SelectSeq(lines, IsObj) IN [i \in 1..Len(os) |-> TargetOfJSON(os[i], defs, defBody)]
==========================================================================
