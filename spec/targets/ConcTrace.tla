------------------------------ MODULE ConcTrace ------------------------------
(***************************************************************************)
(* Trace specification for C15: after a run in which many goroutines drew  *)
(* from one real targeter, the driver writes, caller by caller,            *)
(*   Reset{kind, n, callers}     kind "http" | "json" | "static"           *)
(*   Draw {g, res}               res = the id (1..n) of the target the     *)
(*                               call returned, 0 = exhaustion, -1 = a     *)
(*                               target equal to no input (mixed), -2 = an *)
(*                               error                                     *)
(*   End  {}                                                               *)
(* Draws of one caller are in program order; across callers any order is   *)
(* acceptable (the contract is about the multiset and per-caller order).   *)
(***************************************************************************)
EXTENDS Integers, Sequences, FiniteSets, TLC, TraceKit

VARIABLES hdr, count, eofSeen, draws, l
vars == <<hdr, count, eofSeen, draws, l>>

TInit == InitHighWater /\ hdr = [kind |-> "", n |-> 0] /\ count = << >> /\ eofSeen = {} /\ draws = 0 /\ l = 1

TReset == /\ IsEv(l, "Reset")
          /\ hdr' = Ev(l) /\ count' = [t \in 1..Ev(l).n |-> 0] /\ eofSeen' = {} /\ draws' = 0
          /\ l' = l + 1

TDraw == /\ IsEv(l, "Draw")
         /\ LET e == Ev(l) IN
            IF hdr.kind = "static"
            THEN /\ e.res \in 1..hdr.n                       \* never exhausted, never mixed
                 /\ count' = [count EXCEPT ![e.res] = @ + 1] /\ UNCHANGED eofSeen
            ELSE IF e.res = 0
                 THEN eofSeen' = eofSeen \cup {e.g} /\ UNCHANGED count
                 ELSE /\ e.res \in 1..hdr.n                   \* a target of the input, not a mixture, not an error
                      /\ e.g \notin eofSeen                   \* exhaustion is reported for good
                      /\ count[e.res] = 0                     \* never duplicated
                      /\ count' = [count EXCEPT ![e.res] = 1] /\ UNCHANGED eofSeen
         /\ draws' = draws + 1
         /\ l' = l + 1 /\ UNCHANGED hdr

TEnd == /\ IsEv(l, "End")
        /\ IF hdr.kind = "static"
           THEN \A t \in 1..hdr.n : count[t] \in {draws \div hdr.n, (draws + hdr.n - 1) \div hdr.n}
           ELSE /\ \A t \in 1..hdr.n : count[t] = 1                     \* none lost
                /\ eofSeen = 1..hdr.callers                              \* every caller was told
        /\ l' = l + 1 /\ UNCHANGED <<hdr, count, eofSeen, draws>>

TNext == TReset \/ TDraw \/ TEnd
TSpec == TInit /\ [][TNext]_vars
HW == HighWater(l)
=============================================================================
