CONSTANTS
  MaxLines = 5
  MaxCalls = 3
  ShareDefaults = FALSE
  RequestEndsHeaders = TRUE
SPECIFICATION Spec
INVARIANT Independent
CHECK_DEADLOCK FALSE
