CONSTANTS
  MaxLines = 5
  MaxCalls = 3
  ShareDefaults = TRUE
  RequestEndsHeaders = TRUE
SPECIFICATION Spec
INVARIANT Independent
CHECK_DEADLOCK FALSE
