CONSTANTS
  MaxLines = 7
  MaxCalls = 4
  ShareDefaults = FALSE
  RequestEndsHeaders = TRUE
SPECIFICATION Spec
INVARIANT Independent
CHECK_DEADLOCK FALSE
