----------------------------- MODULE MCTargets -----------------------------
(***************************************************************************)
(* Exhaustive checks for C14 and export of the case set replayed on the    *)
(* real targeter:                                                          *)
(*  - every sequence of line kinds up to MaxLines that is well-formed      *)
(*    under the reference grammar is decoded by the scanner model to the   *)
(*    reference blocks (constant-level ASSUME, all sequences);             *)
(*  - state exploration of the default-header merge with Go slice          *)
(*    semantics: any number of spare cells, up to MaxCalls targets that    *)
(*    repeat a default key with 1..2 own values: Independent holds.        *)
(***************************************************************************)
EXTENDS Integers, Sequences, FiniteSets, TLC, Json, IOUtils, SequencesExt

CONSTANTS MaxLines, MaxCalls, ShareDefaults, RequestEndsHeaders

VARIABLES heap, defaults, returned, calls

T == INSTANCE Targets
TC == INSTANCE TargetsContract

Kinds == {"REQ", "HDR", "BODY", "COM", "BLANK", "WS"}

\* a line of kind k at position i gets texts that identify the position
Line(k, i) == [k |-> k, a |-> (IF k = "REQ" THEN "M" ELSE IF k = "BODY" THEN "body" ELSE "K") \o ToString(i), b |-> (IF k = "BODY" /\ i % 2 = 0 THEN "" ELSE "v" \o ToString(i))]     \* every other body file is empty

KindSeqs == UNION {[1..n -> Kinds] : n \in 0..MaxLines}
Lines(ks) == [i \in 1..Len(ks) |-> Line(ks[i], i)]

WellFormedSeqs == {ks \in KindSeqs : TC!WellFormed(Lines(ks))}

ASSUME ScannerAgrees == \A ks \in WellFormedSeqs : T!Agrees(Lines(ks))

ASSUME Export ==
    IF "CASES_OUT" \in DOMAIN IOEnv
    THEN ndJsonSerialize(IOEnv.CASES_OUT,
            SetToSeq({[kinds |-> ks, ntargets |-> Len(TC!Parse(Lines(ks)).blocks)] : ks \in WellFormedSeqs}))
    ELSE TRUE

Init == \E spare \in 0..2 : T!MergeInit(spare)
Next == calls < MaxCalls /\ \E own \in {<<"a">>, <<"b">>, <<"a", "b">>, << >>} : T!MergeCall(own)
Spec == Init /\ [][Next]_<<heap, defaults, returned, calls>>
Independent == T!Independent
=============================================================================
