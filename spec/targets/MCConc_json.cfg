CONSTANTS
  Callers = {g1, g2, g3}
  NTargets = 4
  MaxCallsPer = 3
  Discipline = "json"
  Private = TRUE
SPECIFICATION Spec
INVARIANTS StreamOK StaticOK
CHECK_DEADLOCK FALSE
