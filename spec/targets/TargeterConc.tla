---------------------------- MODULE TargeterConc ----------------------------
(***************************************************************************)
(* C15 - targeters hand out each target exactly once under concurrent use. *)
(*                                                                         *)
(* Callers g draw from one targeter.  A call is Call(g), an internal       *)
(* linearization step Lin(g) inside the targeter's critical section, an    *)
(* optional Decode(g) outside of it (the JSON targeter parses the line it  *)
(* read after releasing its mutex), and Ret(g).  Three disciplines:        *)
(*   "http"   mutex around the whole decode: Lin takes the next target     *)
(*   "json"   mutex around line reading only: Lin takes the next line into *)
(*            a private buffer (Private = TRUE, the code: ReadBytes copies)*)
(*            or into the reader's shared buffer (Private = FALSE, a       *)
(*            broken variant: ReadSlice), Decode parses it afterwards      *)
(*   "static" atomic counter modulo the number of targets                  *)
(* Contract: a stream targeter delivers every target exactly once, never a *)
(* mixture, and reports exhaustion to every caller afterwards; a static    *)
(* one hands its k targets out so that after n draws each was used         *)
(* floor(n/k) or ceil(n/k) times.                                          *)
(***************************************************************************)
EXTENDS Integers, Sequences, FiniteSets, TLC

CONSTANTS Callers, NTargets, MaxCallsPer, Discipline, Private

EOFv == 0       \* results are target ids 1..NTargets, 0 for exhaustion, -1 for a target mixed from two lines
Mixed == -1

VARIABLES pc,       \* per caller: "idle" | "called" | "read" | "done-call"
          next,     \* items consumed from the stream / the atomic counter
          shared,   \* json: content of the reader's shared buffer (index of the line last read)
          mine,     \* json: the line a caller holds (index), private copy or a reference to `shared`
          got,      \* per caller: sequence of results: target ids, EOFv or Mixed
          ncalls

vars == <<pc, next, shared, mine, got, ncalls>>

Init == /\ pc = [g \in Callers |-> "idle"] /\ next = 0 /\ shared = 0
        /\ mine = [g \in Callers |-> 0] /\ got = [g \in Callers |-> << >>] /\ ncalls = [g \in Callers |-> 0]

Call(g) == /\ pc[g] = "idle" /\ ncalls[g] < MaxCallsPer
           /\ pc' = [pc EXCEPT ![g] = "called"] /\ ncalls' = [ncalls EXCEPT ![g] = @ + 1]
           /\ UNCHANGED <<next, shared, mine, got>>

Give(g, v) == got' = [got EXCEPT ![g] = Append(@, v)]

\* the critical section
Lin(g) ==
    /\ pc[g] = "called"
    /\ IF Discipline = "static"
       THEN /\ next' = next + 1 /\ Give(g, (next % NTargets) + 1)
            /\ pc' = [pc EXCEPT ![g] = "idle"] /\ UNCHANGED <<shared, mine>>
       ELSE IF next >= NTargets
            THEN /\ Give(g, EOFv) /\ pc' = [pc EXCEPT ![g] = "idle"] /\ UNCHANGED <<next, shared, mine>>
            ELSE IF Discipline = "http"
                 THEN /\ next' = next + 1 /\ Give(g, next + 1)
                      /\ pc' = [pc EXCEPT ![g] = "idle"] /\ UNCHANGED <<shared, mine>>
                 ELSE \* json: read one line under the mutex, parse it later
                      /\ next' = next + 1 /\ shared' = next + 1
                      /\ mine' = [mine EXCEPT ![g] = next + 1]
                      /\ pc' = [pc EXCEPT ![g] = "read"] /\ UNCHANGED got

\* json: parse the line outside the critical section
Decode(g) ==
    /\ pc[g] = "read"
    /\ LET line == IF Private THEN mine[g] ELSE shared IN
       Give(g, IF line = mine[g] THEN line ELSE Mixed)     \* a shared buffer may have been refilled meanwhile
    /\ pc' = [pc EXCEPT ![g] = "idle"]
    /\ UNCHANGED <<next, shared, mine, ncalls>>

Next == \E g \in Callers : Call(g) \/ (Lin(g) /\ UNCHANGED ncalls) \/ Decode(g)
Spec == Init /\ [][Next]_vars

(*------------------------------ contract ------------------------------*)
AllGot == UNION {{got[g][i] : i \in 1..Len(got[g])} : g \in Callers}
CountOf(v) == Cardinality({<<g, i>> \in UNION {{<<g, i>> : i \in 1..Len(got[g])} : g \in Callers} : got[g][i] = v})

StreamOK ==
    Discipline # "static" =>
        /\ Mixed \notin AllGot
        /\ \A t \in 1..NTargets : CountOf(t) <= 1                                   \* never duplicated
        /\ \A g \in Callers : \A i, j \in 1..Len(got[g]) : (i < j /\ got[g][i] = EOFv) => got[g][j] = EOFv
        /\ (EOFv \in AllGot /\ \A g \in Callers : pc[g] = "idle") => \A t \in 1..NTargets : CountOf(t) = 1   \* none lost

CountOfAll == Cardinality(UNION {{<<g, i>> : i \in 1..Len(got[g])} : g \in Callers})

StaticOK ==
    (Discipline = "static" /\ \A g \in Callers : pc[g] = "idle") =>
        \A t \in 1..NTargets : CountOf(t) \in {CountOfAll \div NTargets, (CountOfAll + NTargets - 1) \div NTargets}
=============================================================================
