---------------------------- MODULE TargetsTrace ----------------------------
(***************************************************************************)
(* Trace specification for C14.  The harness decodes documents with the    *)
(* real targeters and logs                                                 *)
(*   Reset  {format, lines, defs, defbody}                                 *)
(*   Decode {k, res, method, url, header, body}   k-th call of the targeter*)
(*   Recheck{j, method, url, header, body}        target j inspected again *)
(*                                                after a later call       *)
(*   Defaults{defs}                               the default header map   *)
(*                                                after decoding           *)
(* The expected targets are computed here, from the lines, by the          *)
(* reference grammar and merge rules of TargetsContract.                   *)
(***************************************************************************)
EXTENDS Integers, Sequences, FiniteSets, TLC, TraceKit

TC == INSTANCE TargetsContract

VARIABLES expected, defs, ncalls, done, l

vars == <<expected, defs, ncalls, done, l>>

TInit == InitHighWater /\ expected = << >> /\ defs = << >> /\ ncalls = 0 /\ done = FALSE /\ l = 1

HdrFn(list) == [key \in {list[i].key : i \in 1..Len(list)} |->
                    list[CHOOSE i \in 1..Len(list) : list[i].key = key].values]

DistinctKeys(list) == \A i, j \in 1..Len(list) : i # j => list[i].key # list[j].key

TReset ==
    /\ IsEv(l, "Reset")
    /\ LET e == Ev(l) IN
       /\ IF e.format = "http"
          THEN /\ TC!WellFormed(e.lines)               \* the generator only writes well-formed files
               /\ expected' = TC!ExpectedTargets(e.lines, e.defs, e.defbody)
          ELSE expected' = TC!ExpectedJSON(e.lines, e.defs, e.defbody)
       /\ defs' = e.defs
    /\ ncalls' = 0 /\ done' = FALSE
    /\ l' = l + 1

Shown(e) == [method |-> e.method, url |-> e.url, header |-> HdrFn(e.header), body |-> e.body]

\* exactly the described targets in order, then exhaustion (also on every later call)
TDecode ==
    /\ IsEv(l, "Decode")
    /\ LET e == Ev(l) IN
       /\ e.k = ncalls + 1
       /\ IF e.k <= Len(expected)
          THEN /\ e.res = "target" /\ DistinctKeys(e.header)
               /\ Shown(e) = expected[e.k]
               /\ done' = FALSE
          ELSE /\ e.res = "eof"
               /\ done' = TRUE
    /\ ncalls' = ncalls + 1
    /\ l' = l + 1
    /\ UNCHANGED <<expected, defs>>

\* decoding a later target never changes a target returned earlier
TRecheck ==
    /\ IsEv(l, "Recheck")
    /\ LET e == Ev(l) IN
       /\ e.j <= ncalls /\ e.j <= Len(expected)
       /\ DistinctKeys(e.header)
       /\ Shown(e) = expected[e.j]
    /\ l' = l + 1
    /\ UNCHANGED <<expected, defs, ncalls, done>>

\* ... nor the defaults
TDefaults ==
    /\ IsEv(l, "Defaults")
    /\ DistinctKeys(Ev(l).defs)
    /\ HdrFn(Ev(l).defs) = HdrFn(defs)
    /\ l' = l + 1
    /\ UNCHANGED <<expected, defs, ncalls, done>>

\* a document is finished only after the targeter reported exhaustion
TEnd == /\ IsEv(l, "End") /\ done
        /\ l' = l + 1
        /\ UNCHANGED <<expected, defs, ncalls, done>>

TNext == TReset \/ TDecode \/ TRecheck \/ TDefaults \/ TEnd
TSpec == TInit /\ [][TNext]_vars
HW == HighWater(l)
=============================================================================
