------------------------------ MODULE Targets ------------------------------
(***************************************************************************)
(* Implementation-shaped model of NewHTTPTargeter (lib/targets.go): the    *)
(* line scanner with one line of lookahead (Scan / Peek / Text and the     *)
(* "peeked == empty means nothing peeked" convention), the skipping of     *)
(* blank and comment lines, the header loop, `break` after a body line,    *)
(* and Go slices with capacity for the default header merge: a heap of     *)
(* backing arrays, a slice = [arr, len, cap]; append writes in place when  *)
(* len < cap.  ShareDefaults = TRUE is the historic code that put the      *)
(* default slices themselves into every target; FALSE is the current code  *)
(* that copies them (sensitivity configuration).                           *)
(* RequestEndsHeaders = TRUE is the current code (a request line inside    *)
(* the header loop is pushed back); FALSE the historic one.                *)
(***************************************************************************)
EXTENDS Integers, Sequences, FiniteSets, TLC

CONSTANTS ShareDefaults, RequestEndsHeaders

TC == INSTANCE TargetsContract

Trimmed(ln) == IF ln.k \in {"BLANK", "WS"} THEN "" ELSE "x"     \* strings.TrimSpace(line) == ""
RawEmpty(ln) == ln.k = "BLANK"                                    \* the raw text is ""

(* Scanner state: pos = lines consumed from the underlying bufio.Scanner,
   peeked = 0 (nothing) or the index of the peeked line.  A peeked line whose
   raw text is empty is indistinguishable from "nothing peeked". *)

\* Peek(): if !src.Scan() return ""; peeked = src.Text()
\* returns <<line index or 0 at EOF, new pos, new peeked>>
PeekOp(lines, pos, peeked) ==
    IF pos >= Len(lines) THEN <<0, pos, peeked>>
    ELSE <<pos + 1, pos + 1, IF RawEmpty(lines[pos + 1]) THEN 0 ELSE pos + 1>>

\* Scan() followed by Text(): <<line index or 0 at EOF, new pos, new peeked>>
ScanText(lines, pos, peeked) ==
    IF peeked # 0 THEN <<peeked, pos, 0>>
    ELSE IF pos >= Len(lines) THEN <<0, pos, 0>>
    ELSE <<pos + 1, pos + 1, 0>>

\* the skipping loop at the start of a call: first line that is neither blank nor a comment
RECURSIVE SkipLoop(_, _, _)
SkipLoop(lines, pos, peeked) ==
    LET r == ScanText(lines, pos, peeked) IN
    IF r[1] = 0 THEN r
    ELSE IF Trimmed(lines[r[1]]) # "" /\ lines[r[1]].k # "COM" THEN r
    ELSE SkipLoop(lines, r[2], r[3])

\* the header loop: returns [ok, hdrs, body, pos, peeked]
RECURSIVE HeaderLoop(_, _, _, _)
HeaderLoop(lines, pos, peeked, hdrs) ==
    LET r == ScanText(lines, pos, peeked) IN
    IF r[1] = 0 THEN [ok |-> TRUE, hdrs |-> hdrs, body |-> TC!NoBody, pos |-> r[2], peeked |-> r[3]]
    ELSE LET ln == lines[r[1]] IN
      IF Trimmed(ln) = "" THEN [ok |-> TRUE, hdrs |-> hdrs, body |-> TC!NoBody, pos |-> r[2], peeked |-> r[3]]
      ELSE IF ln.k = "COM" THEN HeaderLoop(lines, r[2], r[3], hdrs)
      ELSE IF ln.k = "REQ" /\ RequestEndsHeaders
           THEN [ok |-> TRUE, hdrs |-> hdrs, body |-> TC!NoBody, pos |-> r[2], peeked |-> r[1]]   \* sc.peeked = line
      ELSE IF ln.k = "BODY" THEN [ok |-> TRUE, hdrs |-> hdrs, body |-> TC!OwnBody(ln), pos |-> r[2], peeked |-> r[3]]
      ELSE IF ln.k = "HDR" THEN HeaderLoop(lines, r[2], r[3], Append(hdrs, ln))
      ELSE \* historic code: a request line is split at its first colon and taken for a header
           HeaderLoop(lines, r[2], r[3], Append(hdrs, [k |-> "HDR", a |-> "<request line as header>", b |-> ln.b]))

\* one call of the targeter: [res \in {"target","eof","error"}, blk, pos, peeked]
Call(lines, pos, peeked) ==
    LET s == SkipLoop(lines, pos, peeked) IN
    IF s[1] = 0 THEN [res |-> "eof", blk |-> << >>, pos |-> s[2], peeked |-> s[3]]
    ELSE LET ln == lines[s[1]] IN
      IF ln.k # "REQ" THEN [res |-> "error", blk |-> << >>, pos |-> s[2], peeked |-> s[3]]
      ELSE LET p == PeekOp(lines, s[2], s[3]) IN
        IF p[1] = 0 \/ Trimmed(lines[p[1]]) = "" \/ lines[p[1]].k = "REQ"
        THEN [res |-> "target", blk |-> [req |-> ln, hdrs |-> << >>, body |-> TC!NoBody], pos |-> p[2], peeked |-> p[3]]
        ELSE LET h == HeaderLoop(lines, p[2], p[3], << >>) IN
             [res |-> "target", blk |-> [req |-> ln, hdrs |-> h.hdrs, body |-> h.body], pos |-> h.pos, peeked |-> h.peeked]

\* all targets until exhaustion (or the first error)
RECURSIVE DecodeAll(_, _, _, _)
DecodeAll(lines, pos, peeked, acc) ==
    LET c == Call(lines, pos, peeked) IN
    IF c.res = "target" THEN DecodeAll(lines, c.pos, c.peeked, Append(acc, c.blk))
    ELSE [res |-> c.res, blocks |-> acc]

Decoded(lines) == DecodeAll(lines, 0, 0, << >>)

\* the scanner agrees with the reference grammar on a well-formed file
Agrees(lines) == TC!WellFormed(lines) =>
                    /\ Decoded(lines).res = "eof"
                    /\ Decoded(lines).blocks = TC!Parse(lines).blocks

(*------------------- default header merge with Go slices -------------------*)
\* heap: arr id -> sequence of cells (its capacity is its length); a slice is [arr, len]
\* defaults: key -> slice.  A target's header: key -> slice.

VARIABLES heap, defaults, returned, calls

svars == <<heap, defaults, returned, calls>>

SliceVals(h, sl) == SubSeq(h[sl.arr], 1, sl.len)

\* append(slice, v): in place when there is spare capacity, else a fresh array of double size
AppendOp(h, sl, v) ==
    IF sl.len < Len(h[sl.arr])
    THEN [heap |-> [h EXCEPT ![sl.arr] = [@ EXCEPT ![sl.len + 1] = v]], slice |-> [arr |-> sl.arr, len |-> sl.len + 1]]
    ELSE LET id == Len(h) + 1 IN
         [heap |-> Append(h, SliceVals(h, sl) \o <<v>>), slice |-> [arr |-> id, len |-> sl.len + 1]]

\* append([]string(nil), vs...): a fresh array holding exactly the values
CopyOp(h, sl) == [heap |-> Append(h, SliceVals(h, sl)), slice |-> [arr |-> Len(h) + 1, len |-> sl.len]]

\* one decoded target adds `own` values (a sequence) to default key "D": returns the new heap and the target's slice
RECURSIVE AppendAll(_, _, _)
AppendAll(h, sl, vs) ==
    IF vs = << >> THEN [heap |-> h, slice |-> sl]
    ELSE LET r == AppendOp(h, sl, Head(vs)) IN AppendAll(r.heap, r.slice, Tail(vs))

MergeInit(spare) ==
    /\ heap = <<(<<"d1">> \o [i \in 1..spare |-> "-"])>>      \* the default slice for key D: one value, `spare` free cells
    /\ defaults = [arr |-> 1, len |-> 1]
    /\ returned = << >>
    /\ calls = 0

\* a call whose target repeats the default key with the given own values
MergeCall(own) ==
    LET start == IF ShareDefaults THEN [heap |-> heap, slice |-> defaults] ELSE CopyOp(heap, defaults)
        r == AppendAll(start.heap, start.slice, own)
    IN /\ heap' = r.heap
       /\ returned' = Append(returned, [slice |-> r.slice, expect |-> <<"d1">> \o own])
       /\ calls' = calls + 1
       /\ UNCHANGED defaults

\* decoding a later target never changes a target returned earlier, nor the defaults
Independent ==
    /\ \A i \in 1..Len(returned) : SliceVals(heap, returned[i].slice) = returned[i].expect
    /\ SliceVals(heap, defaults) = <<"d1">>
=============================================================================
